#!/bin/bash
# usage: recheck_seed.sh <seed-id> <PROP> [PROP...]   -- re-run checks on /repo with a saved seeded change applied, then undo it
sid=$1; shift
out=/verif/seeded/$sid
{
echo "== re-check $(date -u +%FT%TZ) (tier ${TIER:-quick})"
if git -C /repo apply --check $out/patch.diff 2>/dev/null; then
  git -C /repo apply $out/patch.diff
  for p in "$@"; do
    cd /verif && timeout ${TMO:-1500} ./check $p --tier ${TIER:-quick} 2>&1 | grep -v "Warn\|httpx2\|KNOWN-FINDING\|MISSING FONTS\|laying out" | cut -c1-330 | tail -6
    echo "check $p exit=${PIPESTATUS[0]}"
  done
  git -C /repo checkout -- .
  git -C /repo status --short | grep -v evaluate.c
else
  echo "PATCH DOES NOT APPLY to /repo"
fi
} 2>&1 | tee -a $out/result.txt
