#!/bin/bash
# usage: eval_seed_wt.sh <worktree-name> <seed-id> <PROP> [PROP...]
# like eval_seed.sh, but the checks run against the scratch worktree itself (VERIF_REPO/VERIF_OUT) and /repo is not touched:
# for a first look while /repo is in use by a long run; the prescribed apply-to-/repo run is tools/recheck_seed.sh afterwards
wt=/tmp/wt/$1; sid=$2; shift 2
out=/verif/seeded/$sid
mkdir -p $out /tmp/vout/$sid
git -C $wt diff > $out/patch.diff
[ -f $wt/demo.py ] && cp $wt/demo.py $out/demo.py
{
echo "== patch: $(grep -c '^[-+][^-+]' $out/patch.diff) changed lines in: $(grep '^+++ ' $out/patch.diff | tr '\n' ' ')"
echo "== test suite with the change (scratch worktree)"
/verif/tools/run_baseline.py $wt 2>&1 | tail -3
echo "== demo with the change"
(cd $wt && PYTHONPATH=$wt/src timeout 300 /venv/bin/python demo.py 2>&1 | grep -v "Warn\|httpx2" | tail -4; echo "exit=${PIPESTATUS[0]}")
git -C $wt apply -R $out/patch.diff
echo "== demo without the change"
(cd $wt && PYTHONPATH=$wt/src timeout 300 /venv/bin/python demo.py 2>&1 | grep -v "Warn\|httpx2" | tail -2; echo "exit=${PIPESTATUS[0]}")
git -C $wt apply $out/patch.diff
echo "== checks on the scratch worktree with the change (VERIF_REPO=$wt; /repo untouched) $(date -u +%FT%TZ)"
for p in "$@"; do
  cd /verif && VERIF_REPO=$wt VERIF_OUT=/tmp/vout/$sid timeout 1500 ./check $p --tier ${TIER:-quick} 2>&1 | grep -v "Warn\|httpx2\|KNOWN-FINDING\|MISSING FONTS\|laying out" | grep "VIOLATION\|UNSTABLE\|HARNESS\|quick:\|thorough:" | cut -c1-330 | tail -6
  echo "check $p exit=${PIPESTATUS[0]}"
done
} > $out/result.txt 2>&1
tail -8 $out/result.txt | cut -c1-250
