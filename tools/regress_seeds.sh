#!/bin/bash
# usage: regress_seeds.sh [seed-id ...]   -- re-run the quick check of every saved seed against a SCRATCH worktree of /repo HEAD
# (so that /repo stays untouched and other work can go on), several seeds in parallel; prints one line per seed.
# A seed whose patch no longer applies to HEAD (the surrounding code was repaired meanwhile) is reported as STALE.
cd /verif
seeds=("$@"); [ ${#seeds[@]} -eq 0 ] && seeds=($(ls seeded | grep -v "\.md$"))
J=${J:-4}
run_one() {
  sid=$1
  prop=$(python3 -c "import json;print(json.load(open('/verif/seeded/$sid/meta.json'))['property'])" 2>/dev/null || echo ${sid%%-*})
  wt=/tmp/wt/rg-$sid; out=/tmp/wt/rg-out-$sid
  rm -rf $out; mkdir -p $out
  git -C /repo worktree add -q --detach $wt HEAD 2>/dev/null || { echo "$sid WORKTREE-FAILED"; return; }
  (cd /repo/src && for f in $(find . -name '*.so'); do cp $f $wt/src/$f; done)
  if git -C $wt apply --check /verif/seeded/$sid/patch.diff 2>/dev/null || git -C $wt apply --check -C1 /verif/seeded/$sid/patch.diff 2>/dev/null; then
    git -C $wt apply /verif/seeded/$sid/patch.diff 2>/dev/null || git -C $wt apply -C1 /verif/seeded/$sid/patch.diff
    extra=""; [ "$prop" = "C16" ] && extra="C17"; [ "$prop" = "C19" ] && extra="C17"; [ "$prop" = "C02" ] && extra="C05"
    res=""
    for p in $prop $extra; do
      VERIF_REPO=$wt VERIF_OUT=$out timeout 1500 ./check $p --tier quick > $out/$p.log 2>&1; rc=$?
      res="$res $p=exit$rc($(grep -c '^VIOLATION' $out/$p.log)v)"
    done
    echo "$sid$res"
  else
    echo "$sid STALE (patch does not apply to HEAD)"
  fi
  git -C /repo worktree remove --force $wt; rm -rf $out
}
export -f run_one
printf "%s\n" "${seeds[@]}" | xargs -P $J -I{} bash -c 'run_one {}'
git -C /repo worktree prune
