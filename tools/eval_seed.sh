#!/bin/bash
# usage: eval_seed.sh <worktree-name> <seed-id> <PROP> [PROP...]
# 1. confirms in the scratch worktree that the seeded change passes the pinned test suite and that the demonstration flips
# 2. applies the change to /repo, runs the listed checks (quick tier), and undoes it straight afterwards
wt=/tmp/wt/$1; sid=$2; shift 2
out=/verif/seeded/$sid
mkdir -p $out
git -C $wt diff > $out/patch.diff
[ -f $wt/demo.py ] && cp $wt/demo.py $out/demo.py
[ -f $wt/REPORT.md ] && cp $wt/REPORT.md $out/REPORT.md
{
echo "== patch: $(grep -c '^[-+][^-+]' $out/patch.diff) changed lines in: $(grep '^+++ ' $out/patch.diff | tr '\n' ' ')"
echo "== test suite with the change (scratch worktree)"
/verif/tools/run_baseline.py $wt 2>&1 | tail -3
echo "== demo with the change"
(cd $wt && PYTHONPATH=$wt/src timeout 300 /venv/bin/python demo.py 2>&1 | grep -v "Warn\|httpx2" | tail -4; echo "exit=${PIPESTATUS[0]}")
git -C $wt apply -R $out/patch.diff   # (no git stash: the stash is shared between worktrees)
echo "== demo without the change"
(cd $wt && PYTHONPATH=$wt/src timeout 300 /venv/bin/python demo.py 2>&1 | grep -v "Warn\|httpx2" | tail -2; echo "exit=${PIPESTATUS[0]}")
git -C $wt apply $out/patch.diff
echo "== checks on /repo with the change applied"
if git -C /repo apply --check $out/patch.diff 2>/dev/null; then
  git -C /repo apply $out/patch.diff
  for p in "$@"; do
    cd /verif && timeout 1500 ./check $p --tier ${TIER:-quick} 2>&1 | grep -v "Warn\|httpx2\|KNOWN-FINDING\|MISSING FONTS\|laying out" | cut -c1-330 | tail -5
    echo "check $p exit=${PIPESTATUS[0]}"
  done
  git -C /repo checkout -- .
  git -C /repo status --short | grep -v evaluate.c
else
  echo "PATCH DOES NOT APPLY to /repo"
fi
} > $out/result.txt 2>&1
cat $out/result.txt
