#!/bin/bash
# usage: mk_worktree.sh <name>  -> /tmp/wt/<name>: a scratch worktree of /repo HEAD with the compiled extensions copied in
set -e
n=$1
git -C /repo worktree add -q --detach /tmp/wt/$n HEAD
cd /repo/src
for f in $(find . -name '*.so'); do cp $f /tmp/wt/$n/src/$f; done
echo /tmp/wt/$n
