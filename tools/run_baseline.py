#!/venv/bin/python
"""Run the repository's pinned test suite in <repo_dir> (default /repo) and compare with BASELINE.json.
usage: run_baseline.py [repo_dir] [pytest args...]   exit 0 iff every stable baseline test passed."""
import json, os, subprocess, sys, tempfile
import xml.etree.ElementTree as ET

repo = sys.argv[1] if len(sys.argv) > 1 else "/repo"
extra = sys.argv[2:]
base = json.load(open("/root/.vp/BASELINE.json"))
want = set(base["stable_pass"]) - {"tests.qs.test_proc::test_run_cmd_execfail"}  # hangs ~3 of 4 times in this shell even on the unchanged tree (fork in a threaded pytest); run it separately
fd, xml = tempfile.mkstemp(suffix=".xml"); os.close(fd)
env = dict(os.environ)
env["PYTHONPATH"] = os.path.join(repo, "src")  # make a scratch worktree shadow the editable install
cmd = ["/venv/bin/python", "-m", "pytest", "-ra", "-q", "-p", "no:cacheprovider", "--timeout=120", "--deselect", "tests/qs/test_proc.py::test_run_cmd_execfail",
       "--continue-on-collection-errors", "--junitxml=" + xml] + extra
p = subprocess.run(cmd, cwd=repo, env=env, stdout=subprocess.PIPE, stderr=subprocess.STDOUT, text=True)
passed = set()
for tc in ET.parse(xml).getroot().iter("testcase"):
    if not any(ch.tag in ("failure", "error", "skipped") for ch in tc):
        passed.add("%s::%s" % (tc.get("classname"), tc.get("name")))
os.unlink(xml)
missing = sorted(want - passed)
print(p.stdout.strip().splitlines()[-1] if p.stdout.strip() else "")
print("baseline tests: %d, passed of those: %d, not passed: %d" % (len(want), len(want & passed), len(missing)))
for m in missing[:40]:
    print("  NOT PASSED:", m)
sys.exit(1 if missing else 0)
