#!/venv/bin/python
"""Regenerates MANIFEST.json from mc/manifest_data.py (single source of truth for the check table)."""
import json, os, sys
sys.path.insert(0, os.path.dirname(os.path.abspath(__file__)))
from mc.manifest_data import CHECKS, NOT_APPLICABLE, HOOK_COMMITS
ids = ["C%02d" % i for i in range(1, 21)]
checks = []
for pid in ids:
    c = CHECKS.get(pid)
    if not c:
        continue
    checks.append({
        "property_id": pid,
        "quick_cmd": "./check %s --tier quick" % pid,
        "thorough_cmd": "./check %s --tier thorough" % pid,
        "evidence_file": "/verif/evidence/%s.json" % pid,
        "replay_cmd_template": "./check %s --replay {path}" % pid,
        "engine": c["engine"],
        "level_claimed": {"category": c["category"], "text": c["text"], "design_ref": c["design_ref"]},
        "level_note": c["note"],
        "technique": c["technique"],
    })
na = [{"property_id": p, "reason": NOT_APPLICABLE.get(p, "check not built yet (work in progress); see DESIGN.md")}
      for p in ids if p not in CHECKS]
m = {
    "version": 1,
    "setup_cmd": "/venv/bin/python mc/core/build.py",
    "hooks": {
        "guard": "MWLIB_VERIF",
        "enable": "no source hooks are needed: every seam is reached from outside (module attributes, gevent hub, LD_PRELOAD); checks rebuild the C/Cython extensions from /repo's working tree via mc/core/build.py",
        "baseline_off_cmd": "cd /repo && /venv/bin/python -m pytest -ra -q -p no:cacheprovider --timeout=900 --continue-on-collection-errors",
        "source_commits": HOOK_COMMITS,
        "add_only": True,
    },
    "engines": [
        {"name": "input-enum", "path": "mc/core/runner.py", "serves_properties": [p for p in ids if CHECKS.get(p, {}).get("engine") == "input-enum"],
         "kind_free_text": "bounded-exhaustive enumeration of an index-addressable input space on the real code, 16 forked workers, per-case CPU-time watchdog (wall-clock backstop)"},
        {"name": "chub-bfs", "path": "mc/core/chub.py", "serves_properties": [p for p in ids if CHECKS.get(p, {}).get("engine") == "chub-bfs"],
         "kind_free_text": "explicit-state BFS over operation histories of the real job queue / fetcher under a driver-controlled gevent hub"},
        {"name": "fsfault", "path": "mc/core/fsfault", "serves_properties": [p for p in ids if CHECKS.get(p, {}).get("engine") == "fsfault"],
         "kind_free_text": "LD_PRELOAD syscall shim: crash / torn write / error at every file-system operation of a recorded history"},
    ],
    "checks": checks,
    "not_applicable": na,
    "notes": "All checks: ./check <ID> --tier quick|thorough; evidence in evidence/<ID>.json; known findings in known_findings.json.",
}
json.dump(m, open(os.path.join(os.path.dirname(os.path.abspath(__file__)), "MANIFEST.json"), "w"), indent=1)
print("checks:", [c["property_id"] for c in checks], "n/a:", [x["property_id"] for x in na])
