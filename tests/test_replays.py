"""Plain pytest replays (no explorer) of counterexamples the checks found on pediapress/mwlib.
Each test states the property on the minimal failing input/history and passes on the repaired tree.
Run:  cd /verif && /venv/bin/python -m pytest -q -p no:cacheprovider tests
"""
import logging
import os
import sys

import pytest

sys.path.insert(0, os.path.dirname(os.path.dirname(os.path.abspath(__file__))))
logging.disable(logging.CRITICAL)


# ---------------------------------------------------------------- C16 / C17 (queue server under the controlled hub)
def _queue(history):
    from mc.props import qs_explore as X
    hist = [(tuple(X.tuple_deep(e) for e in evs), tuple(ch)) for evs, ch in history]
    w = X.execute(hist)
    a, m, viol = X.judge(w, X.Cfg())
    w.close()
    return viol


def test_c16_two_jobs_for_one_blocked_puller_are_both_kept():
    viol = _queue([[[["pull", "w1", ["a"]]], []], [[["add", "a", 0, 10.0], ["add", "a", 0, 10.0]], [0, 0]]])
    assert not [v for v in viol if v[0] == "C16"], viol


def test_c16_job_added_while_puller_disconnects_is_not_lost():
    viol = _queue([[[["pull", "w1", ["a"]]], []], [[["eof", "w1"], ["add", "a", 0, 10.0]], []]])
    assert not [v for v in viol if v[0] == "C16"], viol


def test_c17_readded_id_is_not_shadowed_by_the_killed_job_of_a_dropped_worker():
    viol = _queue([[[["add", "a", 0, 10.0], ["pull", "w1", ["a"]]], []], [[["kill", "c", "j1"], ["eof", "w1"], ["readd", "j1"]], []]])
    assert not [v for v in viol if v[0] == "C17"], viol


def test_c17_killed_job_is_not_delivered_to_a_woken_puller():
    viol = _queue([[[["pull", "w1", ["a"]]], []], [[["add", "a", 0, 10.0], ["kill", "c", "j1"]], [0]]])
    assert not [v for v in viol if v[1] == "pull-finished-job"], viol


# ---------------------------------------------------------------- C12
@pytest.mark.parametrize("title,dns,want", [("‎:a‎", 10, (0, "A", "A")), ("‎Talk:a", 0, (1, "A", "Talk:A")),
                                            (" ‎:a‎ ", 0, (0, "A", "A"))])
def test_c12_directional_marks_at_the_edges(title, dns, want):
    from mwlib.core import nshandling
    from mwlib.network.siteinfo import get_siteinfo
    h = nshandling.NsHandler(get_siteinfo("en"))
    assert h.splitname(title, dns) == want
    assert h.splitname(want[2], 0) == want


# ---------------------------------------------------------------- C01
@pytest.mark.parametrize("raw", ["&#99999999999;", "[[&#xD800;]]"])
def test_c01_bad_character_references_do_not_abort_the_parse(raw):
    from mwlib.parser.refine import uparser
    from mc.props.c01 import LangDB
    art = uparser.parse_string(title="t", raw=raw, wikidb=LangDB("en", {}), lang="en")
    assert type(art).__name__ == "Article"


# ---------------------------------------------------------------- C03 / C04
@pytest.mark.parametrize("text", ["{{contentlanguage}}", "{{REVISIONID}}", "{{NUMBEROFARTICLES}}", "{{DEFAULTSORT}}", "{{padleft:|99999999}}",
                                  "{{#expr:1e999999999}}", "{{#expr:5 round -99999999}}", "{{#time:xrY|99999999}}"])
def test_c03_expansion_returns_a_small_string(text):
    from mwlib.parser.expander import Expander
    from mc.props.c01 import LangDB
    res = Expander(text, pagename="P", wikidb=LangDB("en", {})).expandTemplates()
    assert isinstance(res, str) and len(res) < 5000


def test_c03_doubling_argument_terminates():
    from mwlib.parser.expander import Expander
    from mc.props.c01 import LangDB
    res = Expander("{{A}}", pagename="P", wikidb=LangDB("en", {"A": "{{{1}}}{{A|{{{1}}}{{{1}}}}}"})).expandTemplates()
    assert isinstance(res, str)


@pytest.mark.parametrize("text,want", [("{{#expr: ceil 2 ^ 0.5 }}", 2 ** 0.5), ("{{#expr: -2 ^ 2 }}", 4.0), ("{{#expr: not 0 ^ 0 }}", 1.0)])
def test_c04_power_binds_looser_than_unary_functions(text, want):
    from mwlib.parser.expander import Expander
    from mc.props.c01 import LangDB
    assert abs(float(Expander(text, pagename="P", wikidb=LangDB("en", {})).expandTemplates()) - want) < 1e-9


def test_c04_later_binding_of_a_duplicate_argument_wins():
    from mwlib.parser.expander import Expander
    from mc.props.c01 import LangDB
    db = LangDB("en", {"T1": "{{{1}}}"})
    assert Expander("{{T1|first|1=a}}", pagename="P", wikidb=db).expandTemplates() == "a"


# ---------------------------------------------------------------- C06
@pytest.mark.parametrize("raw", ['{| style="overflow:auto;height:300px"\n|-\n| c1\n|}\n', '<div id="region_list">\n{|\n| a || b\n|}\n</div>\n',
                                 "<ul><li><h2>S</h2><p>para</p>\n</li></ul>"])
def test_c06_cleaner_passes_do_not_swallow_errors(raw):
    from mwlib.parser.refine import uparser
    from mwlib.parser import advtree, treecleaner
    t = uparser.parse_string(title="t", raw=raw)
    advtree.build_advanced_tree(t)
    tc = treecleaner.TreeCleaner(t, save_reports=True)
    tc.clean_all()
    assert not [r for r in tc.get_reports() if "ERROR" in str(r)]


# ---------------------------------------------------------------- C14
def test_c14_newest_revision_and_redirect_chain(tmp_path):
    from mc.props.c14 import C14
    p = C14()
    p.prepare("quick")
    r = p.run_pages(("en", (("A", 0, 9, "old A"), ("A", 0, 10, "new A"), ("A b", 0, 100, "other")), "pages-single"))
    assert not r["viol"], r["viol"]
    r = p.run_redirects(("chain-flat", {"A": "B", "B": "C"}, ["C"]))
    assert not r["viol"], r["viol"]


# ---------------------------------------------------------------- wave 4 findings
def _expand(text, pages=None):
    from mwlib.parser.expander import Expander
    from mc.props.c01 import LangDB
    return Expander(text, pagename="P", wikidb=LangDB("en", pages or {})).expandTemplates()


def test_c01_self_closing_inputbox_parses():
    from mwlib.parser.refine import uparser
    tree = uparser.parse_string(title="T", raw="a<inputbox/>b", lang="en")
    assert [c.__class__.__name__ for c in tree.allchildren()].count("TagNode") == 1


@pytest.mark.parametrize("text,want", [("{{#switch:1|01=B|1=A}}", "B"), ("{{#switch:01|1=b|01=a}}", "b"),
                                        ("{{#switch:01|1={{{x}}}|01=b}}", "{{{x}}}"), ("{{#switch:02|02=lit|{{{q|2}}}=dyn}}", "lit")])
def test_c04_switch_takes_the_first_matching_case_in_source_order(text, want):
    assert _expand(text) == want


@pytest.mark.parametrize("fn", ["#expr", "#ifexpr"])
def test_c03_pipe_form_does_not_swallow_the_recursion_limit(fn):
    import signal

    def alarm(*a):
        raise KeyboardInterrupt("expansion did not terminate")
    signal.signal(signal.SIGALRM, alarm)
    signal.alarm(20)
    try:
        body = "{{%s|{{a}}}}" % fn
        assert isinstance(_expand("{{a}}b", {"A": body + body}), str)
    finally:
        signal.alarm(0)


@pytest.mark.parametrize("opener,closer", [("{{lc:", "}}"), ("{{a|", "}}"), ("{{{", "}}}"), ("{{#if:", "}}")])
def test_c03_deeply_nested_braces_do_not_raise(opener, closer):
    assert isinstance(_expand(opener * 400 + "x" + closer * 400), str)


def test_c08_block_after_two_images_is_kept_by_tabularize_images():
    from mwlib.writers.rl import writer as rlwriter
    from mwlib.writers.rl.customflowables import Figure
    w = rlwriter.RlWriter.__new__(rlwriter.RlWriter)
    w._scale_images = lambda figs: figs

    class F(Figure):
        def __init__(self):
            pass
    f1, f2, block = F(), F(), object()
    out = w.tabularizeImages([f1, f2, block])
    assert block in out and len(out) == 2, out


# ---------------------------------------------------------------- wave 5 findings
def _parse(raw, pages=None):
    from mwlib.parser.refine import uparser
    from mc.props.c01 import LangDB
    return uparser.parse_string(title="T", raw=raw, wikidb=LangDB("en", pages or {}), lang="en")


def _text(tree):
    return "".join(n.caption or "" for n in tree.allchildren() if n.__class__.__name__ == "Text")


def test_c09_stray_ampersand_does_not_block_the_next_entity():
    assert _text(_parse("<nowiki>&amp &lt;</nowiki>")) == "&amp <"


@pytest.mark.parametrize("fn", ["uc", "lc"])
def test_c09_case_functions_keep_protected_regions(fn):
    assert "''a''" in _text(_parse("{{%s:x<nowiki>''a''</nowiki>y}}" % fn))


def test_c13_null_field_is_a_fixed_point():
    from mwlib.utils import myjson
    from mwlib.core import nserve
    x = '{"type":"collection","summary":null,"items":[{"type":"article","title":"A","content_type":null}]}'
    d1 = myjson.loads(x).dumps()
    assert myjson.loads(d1).dumps() == d1
    assert nserve.make_collection_id({"metabook": x}) == nserve.make_collection_id({"metabook": d1})


def test_c14_title_starting_with_sharp_s_keeps_its_first_letter():
    from mwlib.core import nshandling
    from mwlib.network.siteinfo import get_siteinfo
    h = nshandling.NsHandler(get_siteinfo("en"))
    assert h.splitname("ßeta", 0) == (0, "ßeta", "ßeta")


def test_c01_big_imagemap_coordinate_and_page_range_parse():
    _parse("<imagemap>\nImage:A.png\ncircle 1 2 " + "9" * 5000 + " [[a]]\n</imagemap>")
    _parse("<pages index=a from=1 to=9999999/>")


def test_c07_named_reference_used_before_its_definition_keeps_its_text():
    from mwlib.parser import advtree, treecleaner
    t = _parse('a<ref name="x"/> b<ref name="x">the text</ref>')
    advtree.build_advanced_tree(t)
    treecleaner.TreeCleaner(t).clean_all()
    assert "the text" in _text(t)


def test_c07_caption_of_a_dissolved_single_column_table_is_kept():
    from mwlib.parser import advtree, treecleaner
    t = _parse("{|\n|+ onecap\n|-\n| single\n|}\n")
    advtree.build_advanced_tree(t)
    treecleaner.TreeCleaner(t).clean_all()
    assert "onecap" in _text(t) and "single" in _text(t)


@pytest.mark.parametrize("text,want", [("{{#ifeq:1_0|10|y|n}}", "n"), ("{{#ifeq:inf|infinity|y|n}}", "n"), ("{{#ifeq:nan|nan|y|n}}", "y"),
                                        ("{{#ifeq:1e1|10|y|n}}", "y"), ("{{#switch:x|#default=d|e}}", "e"), ("{{#switch:x|#default=d|#default=e}}", "e")])
def test_c04_numeric_strings_and_switch_defaults_follow_mediawiki(text, want):
    assert _expand(text) == want


def test_c16_client_chosen_integer_id_is_not_handed_out_again():
    from qs import jobs
    wq = jobs.workq()
    assert wq.push("a", jobid=2) == 2
    other = wq.push("a")
    assert other != 2 and len(wq.id2job) == 2


def test_c06_huge_colspan_is_clamped():
    from mwlib.parser import advtree
    t = _parse('{|\n|-\n| colspan="300000000" | a\n| b\n|}\n')
    advtree.build_advanced_tree(t)
    table = [n for n in t.allchildren() if n.__class__.__name__ == "Table"][0]
    assert table.numcols <= 1001


# ---------------------------------------------------------------- fixes of waves 6 and 7
def _clean(raw, pages=None):
    from mwlib.parser import advtree, treecleaner
    t = _parse(raw, pages)
    advtree.build_advanced_tree(t)
    tc = treecleaner.TreeCleaner(t, save_reports=True)
    tc.clean_all()
    return t, [r for r in tc.get_reports() if "ERROR" in str(r)]


def test_c06_two_scrolling_cells_in_one_table_are_cleaned_without_error():
    t, errs = _clean('{|\n|-\n| style="overflow:auto" | a\n| style="overflow:auto" | b\n|}\n')
    assert not errs and "a" in _text(t) and "b" in _text(t)


def test_c07_scrolling_list_keeps_its_items_in_a_list():
    t, errs = _clean('<ul style="overflow:auto"><li>one</li><li>two</li></ul>\n')
    assert not errs
    assert [n.__class__.__name__ for n in t.allchildren()].count("ItemList") == 1


def test_c02_table_caption_is_not_cut_at_a_protected_region():
    t = _parse("{|\n|+ capa <math>x</math> capb\n|-\n| c\n|}\n")
    cap = [n for n in t.allchildren() if n.__class__.__name__ == "Caption"][0]
    assert "capa" in _text(cap) and "capb" in _text(cap)


def test_c01_template_containing_itself_inside_a_reference_parses():
    t = _parse("a{{R}}b", {"R": "x<ref>{{R}}</ref>y"})
    assert t.__class__.__name__ == "Article"


def test_c01_template_containing_itself_twice_inside_a_reference_is_bounded():
    import time
    t0 = time.time()
    t = _parse("a{{R}}b", {"R": "a<ref>{{R}}{{R}}</ref>"})
    assert t.__class__.__name__ == "Article" and time.time() - t0 < 30


def test_c04_unbound_parameter_keeps_its_blanks():
    assert _expand("{{{ x }}}") == "{{{ x }}}"


def test_c03_templates_including_each_other_twice_are_bounded():
    import time
    pages = {"t%d" % i: "{{t%d}}{{t%d}}" % (i + 1, i + 1) for i in range(45)}
    pages["t45"] = "x"
    t0 = time.time()
    out = _expand("{{t0}}", pages)
    assert isinstance(out, str) and time.time() - t0 < 60


def test_c03_tag_function_nested_in_its_own_name_does_not_double():
    text = "{{#tag:" * 20 + "x" + "}}" * 20
    out = _expand(text)
    assert len(out) < 20 * len(text)


def test_c05_article_after_an_emptied_one_is_cleaned_with_the_book():
    from mwlib.parser import advtree, treecleaner
    from mwlib.parser.nodes import Book
    book = Book()
    for i, raw in enumerate(["<br/>\n", "<ul><li>a</li>text<li>b</li></ul>\n"]):
        from mwlib.parser.refine import uparser
        book.append_child(uparser.parse_string(title="P%d" % i, raw=raw, lang="en"))
    advtree.build_advanced_tree(book)
    treecleaner.TreeCleaner(book).clean_all()
    for lst in [n for n in book.allchildren() if n.__class__.__name__ == "ItemList"]:
        assert all(c.__class__.__name__ == "Item" for c in lst.children), lst.children


def test_c08_document_stays_at_its_output_path_when_the_toc_cannot_be_merged(tmp_path):
    from mwlib.writers.rl.toc import TocRenderer
    out = tmp_path / "output.rl"
    out.write_bytes(b"%PDF-1.4 the document")
    toc = tmp_path / "toc.pdf"
    toc.write_bytes(b"%PDF-1.4 toc")
    r = TocRenderer.__new__(TocRenderer)
    r.pdfsam = lambda *a, **k: 1
    r.pdftk = lambda *a, **k: 1
    assert r.combine_pdfs(str(out), str(toc), str(tmp_path / "final.pdf"), False) != 0
    assert out.read_bytes() == b"%PDF-1.4 the document"


def test_c09_regions_stay_protected_on_a_page_with_very_deep_braces():
    t = _parse("<nowiki>'''b''' [[x]]</nowiki> " + "{{lc:" * 400 + "z" + "}}" * 400)
    assert "'''b''' [[x]]" in _text(t)


@pytest.mark.parametrize("call", ["{{urlencode:A<nowiki>n</nowiki>B}}", "{{anchorencode:A<math>m</math>B}}", "{{padright:x|40|A<nowiki>n</nowiki>B}}",
                                  "{{padleft:x|40|A<pre>p</pre>B}}"])
def test_c09_encoding_and_padding_functions_leave_no_marker_debris(call):
    txt = _text(_parse("before " + call + " after"))
    assert "UNIQ" not in txt and "\x7f" not in txt and "QINU" not in txt


# ---------------------------------------------------------------- fixes of wave 8
@pytest.mark.parametrize("tag,body", [("source", "''a'' [[b]]"), ("pre", "x ''a''"), ("syntaxhighlight", "if (a) {{b}}")])
def test_c09_function_form_of_a_tag_keeps_its_nowiki_protected_body(tag, body):
    assert body in _text(_parse("S0 {{#tag:%s|<nowiki>%s</nowiki>}} S1" % (tag, body)))


def test_c18_outcome_counters_survive_a_restart():
    import pickle
    from qs import jobs
    wq = jobs.workq()
    jid = wq.push("a")
    wq.killjobs([jid])
    before = wq.getstats()["channel2stat"]
    wq2 = pickle.loads(pickle.dumps(wq, 2))
    assert wq2.getstats()["channel2stat"] == before and before["a"]["killed"] == 1


def test_c09_regions_nested_in_a_reference_are_restored_without_a_wiki_database():
    from mwlib.parser.refine import uparser
    t = uparser.parse_string(title="T", raw="x<ref><nowiki>''a''</nowiki></ref>y", wikidb=None, lang="en")
    assert "''a''" in _text(t) and "UNIQ" not in _text(t)


def test_c09_syntaxhighlight_body_with_a_source_closing_tag_stays_opaque():
    t = _parse("<syntaxhighlight lang=python>a </source> ''b'' [[c]]</syntaxhighlight>")
    assert "a </source> ''b'' [[c]]" in _text(t)
    assert not [n for n in t.allchildren() if n.__class__.__name__ in ("Style", "ArticleLink")]


def test_c09_displaytitle_with_a_protected_region_is_plain_text():
    t = _parse("{{DISPLAYTITLE:<nowiki>''x''</nowiki>}}text")
    assert t.caption == "''x''"


def test_c05_list_in_the_caption_of_a_dissolved_table_keeps_its_items_in_the_list():
    t, errs = _clean(("intro " * 60) + '\n\n<table id="mp-upper"><caption><ul><li>a</li><li>b</li></ul></caption><tr><td>x</td><td>y</td></tr></table>\n')
    for item in [n for n in t.allchildren() if n.__class__.__name__ == "Item"]:
        assert item.parent.__class__.__name__ == "ItemList"


def test_c05_wide_table_in_a_caption_keeps_its_rows_in_a_table():
    wide = "<table><tr>" + "".join("<td>c%d</td>" % i for i in range(17)) + "</tr></table>"
    t, errs = _clean(("intro " * 60) + "\n\n<table><caption>cap " + wide + "</caption><tr><td>x</td></tr></table>\n")
    for row in [n for n in t.allchildren() if n.__class__.__name__ == "Row"]:
        assert row.parent.__class__.__name__ == "Table"


# ---------------------------------------------------------------- fixes of wave 9
def _words(tree):
    return [w for n in tree.allchildren() if n.__class__.__name__ == "Text" for w in (n.caption or "").split()]


def test_c07_block_with_the_same_text_as_an_earlier_one_survives_the_nesting_repair():
    from mwlib.parser import advtree, treecleaner
    t = _parse("== Heading ==\n\nalpha one\n: same words\nbeta two\n: same words\ngamma three\n")
    advtree.build_advanced_tree(t)
    before = _words(t)
    treecleaner.TreeCleaner(t).clean_all()
    assert _words(t) == before


def test_c06_bordered_table_in_a_caption_does_not_break_split_table_to_columns():
    t, errs = _clean(("word " * 60) + '\n\n<table><caption><table class="wikitable"><tr><td>x</td><td>y</td></tr></table></caption><tr><td>a</td><td>b</td></tr></table>\n')
    assert not errs


def test_c08_caption_survives_when_the_only_cell_held_a_gallery():
    t, errs = _clean("{|\n|+ tabcapword\n|-\n|\n<gallery>\nFile:Pic.png|capone\n</gallery>\n|}\n")
    assert not errs and "tabcapword" in _text(t) and "capone" in _text(t)


def test_c01_pages_tag_with_named_bounds_parses_without_a_wiki_database():
    from mwlib.parser.refine import uparser
    assert uparser.parse_string(title="T", raw='<pages from="a" to="b"/>', lang="en").__class__.__name__ == "Article"


def test_c01_heading_line_across_table_cells_parses():
    t = _parse("{|\n== a || b ==\n<hiero>x</hiero>\n== c || d ==\n|}")
    nodes = list(t.allchildren())
    assert len({id(n) for n in nodes}) == len(nodes)


def test_c11_contributors_are_found_through_a_chain_of_redirects():
    from mwlib.core import nuwiki

    class FakeNu:
        authors = {"Alpha": ["Ann", "Bob"], "Rd": None, "Rd2": None}
        redirects = {"Rd": "Rd2", "Rd2": "Alpha"}
    a = nuwiki.Adapt.__new__(nuwiki.Adapt)
    a.nuwiki = FakeNu()
    a.redirects = FakeNu.redirects
    from mwlib.core import nshandling
    from mwlib.network.siteinfo import get_siteinfo
    a.nshandler = nshandling.NsHandler(get_siteinfo("en"))
    assert a.get_authors("Rd") == ["Ann", "Bob"]


# ---------------------------------------------------------------- fixes found with wave 10
def test_c12_gadget_namespace_is_case_sensitive_as_the_site_says():
    from mwlib.core import nshandling
    from mwlib.network.siteinfo import get_siteinfo
    h = nshandling.NsHandler(get_siteinfo("en"))
    assert h.splitname("gadget:foo bar", 0) == (2300, "foo bar", "Gadget:foo bar")
    assert h.splitname("user:foo", 2300) == (2, "Foo", "User:Foo")


def test_c03_long_run_of_blanks_in_a_title_argument_is_cheap():
    import time
    t0 = time.process_time()
    assert isinstance(_expand("{{PAGENAME:a%sb}}" % (" " * 40000)), str)
    assert time.process_time() - t0 < 2.0


def test_c06_entry_behind_an_emptied_definition_list_is_kept():
    t, errs = _clean("text\n<dl><h2>''See also''</h2></dl>\n: foo\n")
    assert not errs and "foo" in _text(t)


def test_c08_rl_writer_entry_point_works_without_a_status_callback():
    import inspect
    from mwlib.writers.rl import writer
    src = inspect.getsource(writer.RlWriter.renderBook)
    assert "if self.render_status:" in src


# ---------------------------------------------------------------- wave 11 triggers (seeded changes; these pass on the unchanged tree)
def test_c18_job_marked_by_qdrop_survives_a_restart_until_somebody_waited_for_it():
    from mc.props.c18 import run_drop_history
    for hist in ([("add", "j1"), ("ok", "j1"), ("drop", "j1"), ("restart", None)],
                 [("add", 7), ("drop", 7), ("err", 7), ("restart", None), ("restart", None)]):
        assert run_drop_history(hist) is None, hist


def test_c10_text_that_begins_with_a_byte_order_mark_is_tiled_from_offset_0():
    from mwlib.parser.token import utoken
    from mc.props.c10 import check_tiling
    for text in ("\ufeff", "\ufeff== heading ==\ntext\n", "\ufeff{|\n| a\n|}\n"):
        assert check_tiling(text, utoken.scan(text)) is None, text
