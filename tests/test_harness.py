"""Self-tests of the harness parts that decide about time (DESIGN A.7): the CPU-time watchdog and C03's unit-based CPU clause.
Run:  cd /verif && /venv/bin/python -m pytest -q -p no:cacheprovider tests
"""
import os
import sys
import time

import pytest

sys.path.insert(0, os.path.dirname(os.path.dirname(os.path.abspath(__file__))))

from mc.core import pool as poolmod


def _busy(cpu_s):
    t0 = time.process_time()
    while time.process_time() - t0 < cpu_s:
        pass


def test_watchdog_fires_on_cpu_time():
    poolmod.install_watchdog()
    poolmod.arm(0.3)
    t0 = time.process_time()
    try:
        with pytest.raises(poolmod.CaseTimeout):
            _busy(5.0)
    finally:
        poolmod.disarm()
    assert time.process_time() - t0 < 2.0


def test_watchdog_does_not_count_waiting_for_the_cpu():
    """a case that needs 0.1 s of CPU but 0.6 s of wall-clock time (a busy machine) is inside a 0.3 s watchdog"""
    poolmod.install_watchdog()
    poolmod.arm(0.3)
    try:
        _busy(0.1)
        time.sleep(0.5)
    finally:
        poolmod.disarm()


def test_wall_clock_backstop_catches_a_case_that_blocks():
    poolmod.install_watchdog()
    poolmod.arm(0.2)
    t0 = time.time()
    try:
        with pytest.raises(poolmod.CaseTimeout):
            time.sleep(10.0)
    finally:
        poolmod.disarm()
    assert 0.2 * poolmod.WALL_FACTOR * 0.9 <= time.time() - t0 < 5.0


class _FakeMachine:
    """timed_expand of a machine that is `slow` times slower than the idle sandbox: unit text -> 0.155 s x slow, the case -> case_s x slow"""

    def __init__(self, prop, case_s, slow):
        self.unit_text = "{{T|x}} " * prop.UNIT_CALLS
        self.case_s, self.slow = case_s, slow
        self.case_runs = 0

    def __call__(self, text, db):
        if text == self.unit_text:
            return "", 0.155 * self.slow
        self.case_runs += 1
        return "", self.case_s * self.slow


@pytest.fixture
def c03():
    from mc.props.c03 import C03
    p = C03()
    p.db = lambda lang, pages=None: None
    return p


@pytest.mark.parametrize("slow", [1.0, 3.0, 10.0])
def test_c03_cpu_clause_does_not_depend_on_the_speed_of_the_machine(c03, slow):
    # the multiply cases: 0.85 s on the idle sandbox = 5.5 units, wherever they run
    c03.timed_expand = _FakeMachine(c03, 0.85, slow)
    units, runs = c03.cpu_in_units("case", None, 0.85 * slow)
    assert units < c03.CPU_LIMIT_UNITS and runs == 1
    # 3 s on the idle sandbox = 19 units: out of proportion on every machine, in every one of the three runs
    c03.timed_expand = _FakeMachine(c03, 3.0, slow)
    units, runs = c03.cpu_in_units("case", None, 3.0 * slow)
    assert units > c03.CPU_LIMIT_UNITS and (runs == 3 or 3.0 * slow * 2 >= 8.0)


def test_c03_one_inflated_measurement_is_not_a_violation(c03):
    # what the fresh-restore run saw: the first measurement of a 0.85 s case came out above 2 s, the unit right after it did not
    c03.timed_expand = _FakeMachine(c03, 0.85, 1.0)
    units, runs = c03.cpu_in_units("case", None, 2.4)
    assert runs == 2 and units < c03.CPU_LIMIT_UNITS
