"""G – the well-formed document grammar with DENOTATION (used by C02, C07, C08 and as an input family of C05/C06).

A document is a list of block ASTs; every text leaf is a unique token wNN so that loss, duplication, re-ordering and
mis-attachment are decidable by looking up one word.  `render(doc, variant)` serialises it to wikitext (spelling variants:
apostrophes vs HTML tags, blank-line count, trailing spaces, final newline, '||' vs one cell per line);
`denote(doc)` gives, for every token in reading order, the chain of structural ancestors its markup denotes.

Block   = ("h", level, inlines) | ("p", inlines) | ("list", kind, items) | ("dl", [(term_inlines, def_inlines)])
        | ("table", rows, header, caption) | ("pre", [word, ...])
item    = (inlines, sublist_or_None)                 rows = [[cell]]; cell = ("c", inlines) | ("cb", blocks)
Inline  = ("t", word) | ("i", inlines) | ("b", inlines) | ("tag", name, inlines) | ("link", target, caption_inlines_or_None)
        | ("ext", url_word, caption_inlines_or_None) | ("ref", inlines) | ("refp", [inlines, ...])   (a reference of several paragraphs)
        | ("refn", name, inlines) | ("refuse", name)      (a named reference and a later use of it)
        | ("nslink", prefix, target_word, caption_inlines)   (a link into another namespace: [[Prefix:Word|caption]])
        | ("elide", "i"|"b", word, inlines)   (elision in front of styled text, as in l'''Encyclopédie'': word + literal apostrophe + style)
        | ("nl",)                              (a single line break inside the paragraph)
"""
import itertools

from mc.core.space import Space

HTML_STYLE = {"i": "i", "b": "b"}
TAGLABEL = {"u": "Underline", "s": "Strike", "small": "Small", "sup": "Sup", "sub": "Sub", "big": "Big", "code": "Code", "tt": "Teletyped"}


class Tok:
    def __init__(self):
        self.n = 0

    def __call__(self):
        self.n += 1
        return "w%02d" % self.n


# ----------------------------------------------------------------------------- block library
def library():
    """list of (name, builder) – builder(tok) -> block"""
    L = []

    def add(name, fn):
        L.append((name, fn))

    T = lambda k: ("t", k())  # noqa
    add("h2", lambda k: ("h", 2, [T(k)]))
    add("h3", lambda k: ("h", 3, [T(k)]))
    add("h2-italic", lambda k: ("h", 2, [T(k), ("i", [T(k)])]))
    add("p", lambda k: ("p", [T(k), T(k)]))
    add("p-italic", lambda k: ("p", [T(k), ("i", [T(k)]), T(k)]))
    add("p-bold", lambda k: ("p", [("b", [T(k)]), T(k)]))
    add("p-bold-in-italic", lambda k: ("p", [("i", [T(k), ("b", [T(k)]), T(k)])]))
    for tg in ("u", "s", "small", "sup", "sub"):
        add("p-" + tg, (lambda tg: lambda k: ("p", [T(k), ("tag", tg, [T(k)])]))(tg))
    add("p-link", lambda k: ("p", [T(k), ("link", k(), None), T(k)]))
    add("p-link-caption", lambda k: ("p", [("link", k(), [T(k)])]))
    # HTML-spelled styles nested in each other, with an unlabeled link (several child-less tokens) in front of the inner one
    add("p-html-nested-after-link", lambda k: ("p", [("tag", "u", [T(k), ("link", k(), None), ("tag", "small", [T(k)]), T(k)]), T(k)]))
    add("p-html-nested-after-link-2", lambda k: ("p", [("tag", "big", [("link", k(), None), T(k), ("tag", "sup", [T(k), ("link", k(), None)]), T(k)]), T(k)]))
    # content that consists of links WITHOUT a label only (their target is what is displayed)
    add("p-plainlinks-only", lambda k: ("p", [("link", k(), None), ("link", k(), None)]))
    add("p-ref-plainlink-only", lambda k: ("p", [T(k), ("ref", [("link", k(), None)])]))
    add("h3-plainlink", lambda k: ("h", 3, [("link", k(), None)]))
    add("ul-plainlinks-only", lambda k: ("list", "*", [([("link", k(), None)], None), ([("link", k(), None)], None)]))
    add("p-link-ns", lambda k: ("p", [T(k), ("nslink", "Talk", k(), [T(k)]), ("nslink", "Project", k(), [T(k)]), ("nslink", "Wikipedia", k(), [T(k)])]))
    add("p-link-styled-caption", lambda k: ("p", [("link", k(), [("i", [T(k)])])]))
    add("p-ext-named", lambda k: ("p", [T(k), ("ext", k(), [T(k)])]))
    add("p-ref", lambda k: ("p", [T(k), ("ref", [T(k)])]))
    add("p-ref-2para", lambda k: ("p", [T(k), ("refp", [[T(k), T(k)], [T(k)]]), T(k)]))
    add("ul-ref-2para", lambda k: ("list", "*", [([T(k), ("refp", [[T(k)], [T(k), ("i", [T(k)])]])], None), ([T(k)], None)]))
    add("table-ref-3para", lambda k: ("table", [[("c", [T(k), ("refp", [[T(k)], [T(k)], [T(k)]])]), ("c", [T(k)])], [("c", [T(k)]), ("c", [T(k)])]], False, None))
    def named(k, shape):
        t0 = T(k)
        nm = "note-" + t0[1][1:]  # unique inside a document, the same in every document that uses the block at this position
        if shape == "p":
            return ("p", [t0, ("refn", nm, [T(k), T(k)]), T(k), ("refuse", nm)])
        if shape == "late":  # used before it is defined
            return ("p", [t0, ("refuse", nm), T(k), ("refn", nm, [T(k), T(k)]), ("refuse", nm)])
        return ("list", "*", [([t0, ("refn", nm, [T(k)])], None), ([T(k), ("refuse", nm)], None)])
    add("p-ref-named", lambda k: named(k, "p"))
    add("ul-ref-named", lambda k: named(k, "ul"))
    add("p-ref-named-late", lambda k: named(k, "late"))
    add("p-ref-two-links", lambda k: ("p", [T(k), ("ref", [T(k), ("link", k(), [T(k)]), T(k), ("link", k(), [T(k), T(k)]), ("link", k(), None)])]))
    add("p-ref-two-extlinks", lambda k: ("p", [T(k), ("ref", [("ext", k(), [T(k)]), T(k), ("ext", k(), [T(k)])])]))
    # elisions in front of styled text on several lines of ONE paragraph (everyday French/Italian markup)
    add("p-elision-lines", lambda k: ("p", [T(k), ("elide", "i", k(), [T(k)]), T(k), ("nl",), T(k), ("elide", "i", k(), [T(k)]), T(k), ("nl",),
                                            T(k), ("elide", "b", k(), [T(k)]), T(k)]))
    add("p-elision", lambda k: ("p", [T(k), ("elide", "i", k(), [T(k)]), T(k)]))
    add("p-italic-link", lambda k: ("p", [("i", [("link", k(), [T(k)])])]))
    add("ul", lambda k: ("list", "*", [([T(k)], None), ([T(k)], None)]))
    add("ol", lambda k: ("list", "#", [([T(k)], None), ([T(k)], None)]))
    add("ul-ul", lambda k: ("list", "*", [([T(k)], ("list", "*", [([T(k)], None)])), ([T(k)], None)]))
    add("ul-ol", lambda k: ("list", "*", [([T(k)], ("list", "#", [([T(k)], None), ([T(k)], None)]))]))
    add("ol-ul", lambda k: ("list", "#", [([T(k)], ("list", "*", [([T(k)], None)]))]))
    add("ul-3", lambda k: ("list", "*", [([T(k)], ("list", "*", [([T(k)], ("list", "*", [([T(k)], None)]))]))]))
    add("ul-styled", lambda k: ("list", "*", [([("b", [T(k)]), T(k)], None), ([("link", k(), [T(k)])], None)]))
    add("dl", lambda k: ("dl", [([T(k)], [T(k)])]))
    add("dl-2", lambda k: ("dl", [([T(k)], [T(k)]), ([T(k)], [T(k)])]))
    add("table-1x2", lambda k: ("table", [[("c", [T(k)]), ("c", [T(k)])]], False, None))
    add("table-2x2", lambda k: ("table", [[("c", [T(k)]), ("c", [T(k)])], [("c", [T(k)]), ("c", [T(k)])]], False, None))
    add("table-header", lambda k: ("table", [[("c", [T(k)]), ("c", [T(k)])], [("c", [T(k)]), ("c", [T(k)])]], True, None))
    add("table-caption", lambda k: ("table", [[("c", [T(k)]), ("c", [T(k)])], [("c", [T(k)]), ("c", [T(k)])]], False, [T(k)]))
    add("table-1x1-caption", lambda k: ("table", [[("c", [T(k), T(k)])]], False, [T(k)]))
    add("table-2x1-caption", lambda k: ("table", [[("c", [T(k)])], [("c", [T(k)])]], False, [T(k)]))
    add("table-caption-link", lambda k: ("table", [[("c", [T(k)]), ("c", [T(k)])], [("c", [T(k)]), ("c", [T(k)])]], False,
                                         [T(k), ("link", k(), [T(k)]), T(k)]))
    add("table-caption-plainlink-styled", lambda k: ("table", [[("c", [T(k)]), ("c", [T(k)])], [("c", [T(k)]), ("c", [T(k)])]], False,
                                                     [("link", k(), None), ("i", [T(k)]), ("b", [T(k)])]))
    add("table-styled", lambda k: ("table", [[("c", [("b", [T(k)])]), ("c", [("link", k(), [T(k)])])], [("c", [T(k)]), ("c", [("i", [T(k)])])]], False, None))
    add("table-list", lambda k: ("table", [[("cb", [("list", "*", [([T(k)], None), ([T(k)], None)])]), ("c", [T(k)])],
                                           [("c", [T(k)]), ("c", [T(k)])]], False, None))
    add("table-nested", lambda k: ("table", [[("cb", [("table", [[("c", [T(k)]), ("c", [T(k)])], [("c", [T(k)]), ("c", [T(k)])]], False, None)]),
                                              ("c", [T(k)])], [("c", [T(k)]), ("c", [T(k)])]], False, None))
    def longlist(k, n):
        return ("list", "*", [([T(k)], None) for _ in range(n)])
    # a row whose cells mix running text with a long list, next to a cell that holds a list only / nothing
    add("table-mixed-longlist", lambda k: ("table", [[("cb", [("p", [T(k), T(k)]), longlist(k, 6)]), ("cb", [longlist(k, 2)])],
                                                      [("c", [T(k)]), ("c", [T(k)])]], False, None))
    add("table-mixed-longlist-empty", lambda k: ("table", [[("cb", [("p", [("b", [T(k)]), T(k)]), longlist(k, 7)]), ("c", [])],
                                                            [("c", [T(k)]), ("c", [T(k)])]], False, None))
    # a cell that is taller than a page, with one child that is page-high by itself behind a short lead-in (last column, so that a
    # legitimate split of the row keeps the linear order)
    add("table-tall-cell-list", lambda k: ("table", [[("c", [T(k)]), ("cb", [("p", [T(k), T(k)]), longlist(k, 16), ("p", [T(k)])])],
                                                      [("c", [T(k)]), ("c", [T(k)])]], False, None))
    add("table-tall-cell-paras", lambda k: ("table", [[("c", [T(k)]), ("cb", [("p", [T(k)]), longlist(k, 20), longlist(k, 3), ("p", [T(k), T(k)])])],
                                                       [("c", [T(k)]), ("c", [T(k)])]], False, None))
    add("table-longlists", lambda k: ("table", [[("cb", [longlist(k, 6)]), ("cb", [longlist(k, 3)])], [("c", [T(k)]), ("c", [T(k)])]], False, None))
    add("table-sparse-last", lambda k: ("table", [[("c", [T(k)]), ("c", [T(k)])], [("c", [T(k)]), ("c", [])]], False, None))
    add("table-sparse-all", lambda k: ("table", [[("c", [T(k)]), ("c", [])], [("c", []), ("c", [T(k)])]], False, None))
    add("pre", lambda k: ("pre", [k(), k()]))
    return L


LIB = library()
LIBNAMES = [n for n, _ in LIB]
LIBMAP = dict(LIB)
# heading levels that only the heading-sequence family uses (not multiplied into every document family)
LIBMAP.update({"h1": lambda k: ("h", 1, [("t", k())]), "h4": lambda k: ("h", 4, [("t", k())]), "h5": lambda k: ("h", 5, [("t", k())])})


class HeadingSpace(Space):
    """every sequence of <= n headings over the given levels, each followed by a paragraph (levels may be skipped going down
    and returned to in any order): cases (block names, variant)"""

    def __init__(self, n, levels=(1, 2, 3, 4), variants=("plain", "tight"), name="headings"):
        self.name = name
        self.cases = []
        for ln in range(1, n + 1):
            for seq in itertools.product(levels, repeat=ln):
                names = []
                for lv in seq:
                    names += ["h%d" % lv, "p"]
                for v in variants:
                    self.cases.append((tuple(names), v))

    def __len__(self):
        return len(self.cases)

    def __getitem__(self, i):
        return self.cases[i]
VARIANTS = ["plain", "html", "spaced", "compact", "tight"]


def build(names):
    k = Tok()
    return [LIBMAP[n](k) for n in names]


class DocSpace(Space):
    """cases: (tuple of block names, variant)"""

    def __init__(self, maxblocks, name="grammar", names=None, variants=None):
        self.name = name
        self.cases = []
        names = names or LIBNAMES
        for n in range(1, maxblocks + 1):
            for seq in itertools.product(names, repeat=n):
                for v in (variants or VARIANTS):
                    self.cases.append((seq, v))

    def __len__(self):
        return len(self.cases)

    def __getitem__(self, i):
        return self.cases[i]


def space(tier, name="grammar"):
    if tier == "quick":
        return DocSpace(2, name=name, variants=["plain", "html"])
    return DocSpace(2, name=name)


# ----------------------------------------------------------------------------- serialisation
def ser_inlines(ins, v):
    return " ".join(ser_inline(i, v) for i in ins).replace(" \n ", "\n")


def ser_inline(i, v):
    k = i[0]
    if k == "t":
        return i[1]
    if k == "i":
        inner = ser_inlines(i[1], v)
        return "<i>%s</i>" % inner if v == "html" else "''%s''" % inner
    if k == "b":
        inner = ser_inlines(i[1], v)
        return "<b>%s</b>" % inner if v == "html" else "'''%s'''" % inner
    if k == "tag":
        return "<%s>%s</%s>" % (i[1], ser_inlines(i[2], v), i[1])
    if k == "link":
        tgt = i[1].capitalize()
        if i[2] is None:
            return "[[%s]]" % tgt
        return "[[%s|%s]]" % (tgt, ser_inlines(i[2], v))
    if k == "elide":
        inner = ser_inlines(i[3], v)
        if v == "html":
            return "%s'<%s>%s</%s>" % (i[2], i[1], inner, i[1])
        q = "''" if i[1] == "i" else "'''"
        return "%s'%s%s%s" % (i[2], q, inner, q)
    if k == "nl":
        return "\n"
    if k == "nslink":
        return "[[%s:%s|%s]]" % (i[1], i[2].capitalize(), ser_inlines(i[3], v))
    if k == "ext":
        if i[2] is None:
            return "http://example.org/%s" % i[1]
        return "[http://example.org/%s %s]" % (i[1], ser_inlines(i[2], v))
    if k == "ref":
        return "<ref>%s</ref>" % ser_inlines(i[1], v)
    if k == "refn":
        return '<ref name="%s">%s</ref>' % (i[1], ser_inlines(i[2], v))
    if k == "refuse":
        return '<ref name="%s"/>' % i[1]
    if k == "refp":
        return "<ref>%s</ref>" % "\n\n".join(ser_inlines(x, v) for x in i[1])
    raise ValueError(k)


def ser_list(lst, v, prefix=""):
    out = []
    kind, items = lst[1], lst[2]
    for (ins, sub) in items:
        out.append("%s%s %s" % (prefix, kind, ser_inlines(ins, v)))
        if sub is not None:
            out.extend(ser_list(sub, v, prefix + kind))
    return out


def ser_block(b, v):
    k = b[0]
    sp = " " if v == "spaced" else ""
    if k == "h":
        eq = "=" * b[1]
        return ["%s %s %s%s" % (eq, ser_inlines(b[2], v), eq, sp)]
    if k == "p":
        return [ser_inlines(b[1], v) + sp]
    if k == "list":
        return ser_list(b, v)
    if k == "dl":
        out = []
        for (t, d) in b[1]:
            if v == "compact":
                out.append("; %s : %s" % (ser_inlines(t, v), ser_inlines(d, v)))
            else:
                out.append("; %s" % ser_inlines(t, v))
                out.append(": %s" % ser_inlines(d, v))
        return out
    if k == "table":
        out = ["{|"]
        if b[3] is not None:
            out.append("|+ %s" % ser_inlines(b[3], v))
        for ri, row in enumerate(b[1]):
            out.append("|-")
            mark = "!" if (b[2] and ri == 0) else "|"
            if v == "compact" and all(c[0] == "c" for c in row):
                out.append(mark + " " + ((" %s%s " % (mark, mark)).join(ser_inlines(c[1], v) for c in row)))
            else:
                for c in row:
                    if c[0] == "c":
                        out.append("%s %s" % (mark, ser_inlines(c[1], v)))
                    else:
                        out.append(mark)
                        for bb in c[1]:
                            out.extend(ser_block(bb, v))
        out.append("|}")
        return out
    if k == "pre":
        return [" " + w for w in b[1]]
    raise ValueError(k)


def render(case_or_doc, variant=None):
    if variant is None:
        names, variant = case_or_doc
        doc = build(names)
    else:
        doc = case_or_doc
    chunks = []
    for b in doc:
        chunks.append("\n".join(ser_block(b, "compact" if variant == "tight" else variant)))
    if variant == "tight":
        # line-level constructs follow each other without a blank line (only paragraphs need one)
        text = chunks[0]
        for prev, b, ch in zip(doc, doc[1:], chunks[1:]):
            text += ("\n\n" if (prev[0] == "p" or b[0] == "p") else "\n") + ch
        return text + "\n"
    sep = "\n\n\n" if variant == "spaced" else "\n\n"
    text = sep.join(chunks)
    return text if variant == "compact" else text + "\n"


# ----------------------------------------------------------------------------- denotation
def denote(doc):
    """-> list of (token, chain) in reading order; chain = tuple of labels from the outside in"""
    out = []
    secs = []  # stack of (level,)

    def inl(ins, chain):
        for i in ins:
            k = i[0]
            if k == "t":
                out.append((i[1], chain))
            elif k == "i":
                inl(i[1], chain + ("Emphasized",))
            elif k == "b":
                inl(i[1], chain + ("Strong",))
            elif k == "tag":
                inl(i[2], chain + (TAGLABEL[i[1]],))
            elif k == "link":
                tgt = i[1].capitalize()
                if i[2] is None:
                    out.append((i[1], chain + ("ArticleLink:" + tgt, "@target")))
                else:
                    inl(i[2], chain + ("ArticleLink:" + tgt,))
            elif k == "elide":
                out.append((i[2], chain))
                inl(i[3], chain + ("Emphasized" if i[1] == "i" else "Strong",))
            elif k == "nl":
                pass
            elif k == "nslink":
                inl(i[3], chain + ("NamespaceLink:%s:%s" % (i[1], i[2].capitalize()),))
            elif k == "ext":
                url = "http://example.org/" + i[1]
                if i[2] is None:
                    out.append((i[1], chain + ("URL:" + url, "@target")))
                else:
                    inl(i[2], chain + ("NamedURL:" + url,))
            elif k == "ref":
                inl(i[1], chain + ("Reference",))
            elif k == "refn":
                inl(i[2], chain + ("Reference",))
            elif k == "refp":
                for x in i[1]:
                    inl(x, chain + ("Reference",))

    def lst(l, chain, depth):
        kind = "ol" if l[1] == "#" else "ul"
        for (ins, sub) in l[2]:
            c2 = chain + ("ItemList:" + kind, "Item")
            inl(ins, c2)
            if sub is not None:
                lst(sub, c2, depth + 1)

    def block(b, chain):
        k = b[0]
        if k == "p":
            inl(b[1], chain)
        elif k == "list":
            lst(b, chain, 1)
        elif k == "dl":
            for (t, d) in b[1]:
                inl(t, chain + ("DefinitionList", "DefinitionTerm"))
                inl(d, chain + ("DefinitionList", "DefinitionDescription"))
        elif k == "table":
            if b[3] is not None:
                inl(b[3], chain + ("Table", "Caption"))
            for ri, row in enumerate(b[1]):
                for c in row:
                    c2 = chain + ("Table", "Row", "Cell:h" if (b[2] and ri == 0) else "Cell")
                    if c[0] == "c":
                        inl(c[1], c2)
                    else:
                        for bb in c[1]:
                            block(bb, c2)
        elif k == "pre":
            for w in b[1]:
                out.append((w, chain + ("PreFormatted",)))

    for b in doc:
        if b[0] == "h":
            while secs and secs[-1] >= b[1]:
                secs.pop()
            secs.append(b[1])
            chain = tuple("Section:%d" % l for l in secs)
            inl(b[2], chain + ("@heading",))
        else:
            chain = tuple("Section:%d" % l for l in secs)
            block(b, chain)
    return out


def extras(doc):
    """the visible characters of the document that are not tokens (literal apostrophes of elisions), in order"""
    out = []

    def rec(x):
        if isinstance(x, tuple) and x and x[0] == "elide":
            out.append("'")
            rec(x[3])
        elif isinstance(x, (list, tuple)):
            for y in x:
                rec(y)
    rec(doc)
    return "".join(out)


def tokens(doc):
    return [t for t, _ in denote(doc)]
