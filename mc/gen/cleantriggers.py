"""SIGMA_CLEAN: composite wikitext blocks, one per condition visible in treecleaner.py / treecleanerhelper.py – the
attribute/class/id values and size thresholds that switch individual cleaning passes on."""

NOPRINT_CLASSES = ["noprint", "navbox", "navbox-vertical", "metadata", "editlink", "hiddenStructure", "dablink", "rellink",
                   "noviewer", "ambox", "sisterproject", "boilerplate", "seealso", "magnify", "printfooter", "toc", "NavFrame"]


def table(rows, cols, cell="c%d", attrs="", cellattr="", header=False, caption=None):
    out = ["{|" + (" " + attrs if attrs else "")]
    if caption:
        out.append("|+ " + caption)
    n = 0
    for r in range(rows):
        out.append("|-")
        for c in range(cols):
            n += 1
            mark = "!" if header and r == 0 else "|"
            txt = cell % n if "%d" in cell else cell
            out.append(mark + (cellattr + " | " if cellattr else " ") + txt)
    out.append("|}")
    return "\n".join(out) + "\n"


LONG = "lorem ipsum dolor sit amet " * 4  # 108 chars


def build():
    T = []
    a = T.append
    a(("overflow-div", '<div style="overflow:auto;height:300px">scroll text</div>\n'))
    a(("overflow-table", table(2, 2, attrs='style="overflow:auto;height:300px"')))
    a(("overflow-div-table", '<div style="overflow:auto; height:200px">\n' + table(2, 2) + "</div>\n"))
    a(("region-list", table(2, 2, attrs='id="region_list"')))
    a(("region-list-big", table(22, 1, attrs='id="region_list"')))
    for c in NOPRINT_CLASSES:
        a(("noprint-" + c, '<div class="%s">hidden w1</div>\n' % c))
    a(("noprint-table", table(1, 2, attrs='class="navbox"')))
    a(("infobox-collapsed", table(2, 2, attrs='class="infobox collapsible collapsed"')))
    a(("infobox", table(3, 2, attrs='class="infobox"') + "After the infobox some text.\n"))
    a(("absolute", '<div style="position:absolute;top:1px">abs</div>\n'))
    a(("absolute-span", 'x <span style="position: absolute">abs</span> y\n'))
    a(("printonly", '<span class="printonly">http://x.y</span>\n'))
    a(("printonly-text", '<span class="printonly">plain</span>\n'))
    a(("hidden", '<span style="visibility:hidden">h</span> <div style="display:none">n</div>\n'))
    a(("rtl-style", '<div style="direction:rtl">rtl text</div>\n'))
    a(("single-col", table(3, 1)))
    a(("single-col-long", table(3, 1, cell=LONG * 9)))
    a(("single-cell", table(1, 1, cell="only")))
    a(("nested-16col", "{|\n|\n" + table(1, 16) + "|}\n"))
    a(("nested-table", "{|\n| outer\n|\n" + table(2, 2) + "|}\n"))
    a(("nested-bordered-x3", "{|\n|\n" + table(1, 1, attrs='border="1"') * 3 + "|}\n"))
    a(("cols-31", table(1, 31)))
    a(("rows-25", table(25, 2)))
    a(("cells-201", table(21, 10, cell="x")))
    a(("table-lists-6", "{|\n|\n" + "* a\n" * 6 + "|\n" + "* b\n" * 6 + "|}\n"))
    a(("table-lists-2", "{|\n|\n* a\n* b\n|\n* c\n|}\n"))
    a(("rowspan", table(2, 2, cellattr='rowspan="2"')))
    a(("colspan", table(2, 2, cellattr='colspan="2"')))
    a(("colspan-0", table(2, 2, cellattr='colspan="0"')))
    a(("colspan-x", table(2, 2, cellattr='colspan="x"')))
    a(("colspan-99", "{|\n| colspan=99 | a\n|-\n| b || c\n|}\n"))
    a(("rowspan-99", "{|\n| rowspan=99 | a || b\n|-\n| c\n|}\n"))
    a(("ragged", "{|\n| a || b || c\n|-\n| d\n|-\n|}\n"))
    a(("empty-rows", "{|\n|-\n|-\n| a\n|-\n|-\n|}\n"))
    a(("empty-cells", "{|\n| || || \n|-\n| a || \n|}\n"))
    a(("cell-sections-long", "{|\n|\n== S1 ==\n" + LONG * 20 + "\n== S2 ==\n" + LONG * 20 + "\n|}\n"))
    a(("cell-5000", "{|\n| " + LONG * 50 + "\n| b\n|}\n"))
    a(("cols3-long", table(2, 3, cell=LONG * 5)))
    a(("ref-once", 'x<ref name="a">ref text</ref>\n<references/>\n'))
    a(("ref-twice", 'x<ref name="a">one</ref> y<ref name="a">two</ref> z<ref name="a"/>\n<references/>\n'))
    a(("ref-never", 'x<ref name="zz"/>\n<references/>\n'))
    a(("ref-dup-links", 'x<ref>[[A]] [[A]] [http://x.y] [http://x.y]</ref>\n<references/>\n'))
    a(("references-empty", "<references/>\n"))
    a(("ref-pre", "x<ref>\n pre line\n</ref>\n"))
    a(("ref-div", "x<ref><div>d</div></ref>\n"))
    a(("ref-image", "x<ref>[[File:A.png|thumb|cap]]</ref>\n"))
    a(("ref-ref", "x<ref>a<ref>b</ref></ref>\n"))
    a(("ref-center", "x<ref><center>c</center></ref>\n"))
    a(("ref-cite-list", "* <cite>c</cite>\nx<ref><cite>d</cite></ref>\n"))
    a(("br-start", "<br/>text\n"))
    a(("br-end", "text<br/>\n"))
    a(("br-double", "a<br/><br/>b\n"))
    a(("br-blocks", "<br/>\n* item\n<br/>\n{|\n| c\n|}\n<br/>\n"))
    a(("br-in-cell", "{|\n| <br/>a<br/>\n|}\n"))
    a(("p-after-section", "== S ==\n<p>para</p>\n"))
    a(("center-only-child", "<u><center>c</center></u> ''<center>d</center>''\n"))
    a(("source-in-style", "'''<source lang=\"py\">x=1</source>'''\n"))
    a(("pre-image", " [[File:A.png]] in pre\n"))
    a(("pre-list", "<pre>\n* a\n</pre>\n"))
    a(("pre-code", "<code>\n pre in code\n</code>\n"))
    a(("tt-source", "<tt><source>s</source></tt>\n"))
    a(("gallery-text", "<gallery>\nFile:A.png|cap\nstray text\n</gallery>\n"))
    a(("gallery-indent", ":<gallery>\nFile:A.png\n</gallery>\n"))
    a(("gallery-dl", "; t\n: <gallery>\nFile:A.png\n</gallery>\n"))
    a(("image-ogg", "[[File:Sound.ogg]] [[File:Sound.ogg|thumb|c]]\n"))
    a(("image-caption-500", "[[File:A.png|thumb|" + LONG * 6 + "]]\n"))
    a(("sub-200", "x<sub>" + LONG * 3 + "</sub> y<sup>" + LONG * 3 + "</sup>\n"))
    a(("see-also", "== See also ==\n* [[A]]\n* [[B]]\n"))
    a(("see-also-de", "== Siehe auch ==\n* [[A]]\n"))
    a(("empty-section", "== Empty ==\n== Next ==\ntext\n"))
    a(("empty-section-nested", "== A ==\n=== B ===\n== C ==\nt\n"))
    a(("edit-link", "[http://wiki.example/w/index.php?title=A&action=edit edit]\n"))
    a(("category", "[[Category:C]] [[:Category:C]]\n"))
    a(("langlink", "[[de:A]] [[:de:A]]\n"))
    a(("interwiki", "[[wikt:A]]\n"))
    a(("deflist", "; term : def\n: def2\n; t2\n"))
    a(("indent-table", ":{|\n| c\n|}\n"))
    a(("indent-only", ": indented\n:: more\n"))
    a(("math", "<math>x^2</math>\n"))
    a(("timeline", "<timeline>\nImageSize = width:100\n</timeline>\n"))
    a(("list-in-para", "text\n* a\n** b\n# c\n"))
    a(("list-only-para", "<p>\n* a\n</p>\n"))
    a(("leading-para-in-list", "* <p>a</p>\n* b\n"))
    a(("ul-bad-children", "<ul>stray<li>a</li><div>d</div></ul>\n"))
    a(("table-bad-children", "<table>stray<tr>x<td>a</td></tr><div>d</div></table>\n"))
    a(("dl-html", "<dl><dt>t</dt><dd>d</dd>stray</dl>\n"))
    a(("style-no-text", "'''''' <b></b> <i> </i>\n"))
    a(("span-width", '<span style="width:10px"></span> <div style="height:5px"></div>\n'))
    a(("blockquote-in-pre", " <blockquote>q</blockquote>\n"))
    a(("para-in-para", "<p>a<p>b</p></p>\n"))
    a(("div-deep", "<div><div><div><p>x</p></div></div></div>\n"))
    a(("only-in-print", '<div class="onlyinprint">o</div>\n'))
    a(("train-template", table(3, 3, attrs='class="train"')))
    a(("mp-upper", table(1, 2, attrs='id="mp-upper"')))
    a(("short-para", "ab\n\ncd\n"))
    a(("image-plain", "[[File:A.png]]"))
    a(("image-caption-500-br", "[[File:A.png|thumb|" + LONG * 3 + "<br/>" + LONG * 3 + "<br/>end]]\n"))
    a(("absolute-nested", '<div style="position:relative">outer <div style="position:absolute;top:1px">inner abs</div></div>\n'))
    a(("edit-link-q", "[http://wiki.example/w/index.php?action=edit edit] text\n"))
    a(("train-template", "{|\n| [[File:BSicon STR.svg|20px]] || station\n|}\n"))
    a(("navbox-inner", "{|\n|\n" + table(1, 2, attrs='id="navbox"') + "|}\n"))
    a(("table-in-caption-div", "[[File:A.png|thumb|cap <div>\n" + table(2, 2) + "</div>]]\n"))
    a(("table-in-caption", "[[File:A.png|thumb|cap\n" + table(1, 2) + "]]\n"))
    a(("nested-indent-tables", ":{|\n|-\n| outer\n:{|\n|-\n| inner || x\n|}\n|}\n"))
    a(("sparse-last-row", "{|\n| a || b\n|-\n| c ||\n|}\n"))
    a(("sparse-rows", "{|\n| a ||\n|-\n|  || d\n|}\n"))
    a(("h2-then-p", "<div><h2>S</h2><p>para after html heading</p></div>\n"))
    a(("h2-then-p-top", "<h2>S</h2><p>para</p>\n"))
    a(("h3-in-cell-p", "{|\n| <h3>S</h3><p>para</p>\n|}\n"))
    a(("region-list-div", '<div id="region_list">\n{|\n| a || b\n|-\n| c || d\n|}\n</div>\n'))
    a(("region-list-div-2", '<div id="region_list">\n{|\n| a\n|}\n{|\n| b\n|}\n</div>\n'))
    # span numbers far beyond any table (browsers clamp colspan to 1000): the passes that lay a table out by columns must not
    # do work proportional to the number
    a(("colspan-huge-wide", ("intro " * 100) + "\n\n{|\n|-\n| colspan=\"300000000\" | a\n| b\n|-\n| " + "word " * 1200 + "\n| d\n|}\n"))
    a(("colspan-huge", "{|\n|-\n| colspan=99999999 | a || b\n|-\n| c || d\n|}\n"))
    a(("rowspan-huge", "{|\n|-\n| rowspan=99999999 | a || b\n|-\n| c || d\n|}\n"))
    # tables that are dissolved into columns, with a caption that carries inline markup / a hidden caption that defines a named reference
    bigcell = "word " * 1200
    a(("linearize-caption-inline", ("intro " * 100) + "\n\n{|\n|+ Results ''(final)'' of the '''2009''' [[season]] here\n|-\n| " + bigcell + "\n| d\n|-\n| e || f\n|}\n"))
    a(("mp-upper-caption-inline", ("intro " * 100) + "\n\n{| id=\"mp-upper\"\n|+ Cap ''it'' and '''bo''' [[link]]\n|-\n| a || b\n|-\n| c || d\n|}\n"))
    a(("hidden-caption-named-ref", "{|\n|+ style=\"display:none\" | cap<ref name=\"src\">r text</ref>\n|-\n| a || b\n|-\n| c<ref name=\"src\"/> || d\n|}\n"))
    a(("noprint-caption-named-ref", "{|\n|+ class=\"noprint\" | cap<ref name=\"src\">r text</ref>\n|-\n| a || b\n|-\n| c<ref name=\"src\"/> || d\n|}\n"))
    a(("hidden-cell-named-ref", "{|\n|-\n| style=\"display:none\" | x<ref name=\"s2\">r</ref> || b\n|-\n| c<ref name=\"s2\"/> || d\n|}\n"))
    a(("overflow-two-cells", "{|\n| style=\"overflow:auto;height:200px\" | a\n| style=\"overflow:auto;height:200px\" | b\n|}\n"))
    a(("overflow-list", "<ul style=\"overflow:auto; height:200px\"><li>a</li><li>b</li></ul>\n"))
    a(("li-h2-noprint-then-p", "<ul><li><h2><span class=\"noprint\">S</span></h2><p>para</p></li></ul>\n"))
    a(("li-h2-empty-then-p", "<ul><li><h2></h2><p>para</p></li></ul>\n"))
    a(("same-indent-lines-twice", "intro\n\nalpha\n: same\nbeta\n: same\ngamma\n\nend\n"))
    # attribute names that are not all lower case (clean_vlist adds the lower-case twin while walking the attributes)
    a(("attr-case-table", "{| Class=\"wikitable\" ID=x\n|- BGCOLOR=red\n| colSpan=2 ROWSPAN=1 | a\n|-\n| b || c\n|}\n"))
    a(("attr-case-div", "<div CLASS=\"noprint\" Style=\"color:red\">x</div><span Id=\"y\" TITLE=t>s</span>\n"))
    a(("attr-case-two-tables", "{|\n| Align=left | a\n|}\n\n{|\n| ROWSPAN=\"2\" | b\n| c\n|-\n| d\n|}\n"))
    # scroll boxes whose height is given in every unit (and not at all)
    for nm, h in (("percent", "height:50%"), ("em", "height:30em"), ("pt", "height:200pt"), ("none", ""), ("bare", "height:300"), ("auto", "height:auto")):
        a(("overflow-height-" + nm, '<div style="overflow:auto; %s">scroll <b>text</b></div>\n\nafter\n' % h))
    a(("overflow-cell-percent", "{|\n| style=\"overflow:auto;height:80%\" | a\n| b\n|}\n"))
    # block markup inside a heading line, with and without content
    a(("heading-html-table-empty-cell", "== x<table><tr><td>a</td><td></td></tr></table> ==\nbody\n"))
    a(("heading-html-table", "== x<table><tr><td>a</td><td>b</td></tr></table> ==\nbody\n"))
    a(("heading-html-list-empty-item", "== h <ul><li>a</li><li></li></ul> ==\nbody\n"))
    a(("heading-empty-div-br", "== h <div></div><br/> t ==\nbody\n"))
    a(("heading-nested-table-empty", "== x<table><tr><td><table><tr><td></td></tr></table></td></tr></table> ==\nbody\n"))
    # tables and lists inside a table caption, in tables that get linearised
    wide = "<table><tr>" + "".join("<td>c%d</td>" % i for i in range(17)) + "</tr></table>"
    a(("caption-holds-wide-table", ("intro " * 60) + "\n\n<table><caption>cap " + wide + "</caption><tr><td>x</td></tr></table>\n"))
    a(("mp-upper-caption-list", ("intro " * 60) + '\n\n<table id="mp-upper"><caption><ul><li>a</li><li>b</li></ul></caption><tr><td>x</td><td>y</td></tr></table>\n'))
    a(("caption-holds-bordered-table", ("word " * 60) + '\n\n<table><caption><table class="wikitable"><tr><td>x</td><td>y</td></tr></table></caption><tr><td>a</td><td>b</td></tr></table>\n'))
    a(("caption-then-empty-rows", "{|\n|+ caption words\n|-\n| \n|-\n|\n|}\n"))
    a(("caption-gallery-only-cell", "{|\n|+ tabcapword\n|-\n|\n<gallery>\nFile:Pic.png|capone\n</gallery>\n|}\n"))
    # colspan / rowspan values that look like numbers to str.isdigit() but not to int()
    a(("span-unicode-digits", '{|\n| colspan="²" | a\n| rowspan=① | b\n|-\n| colspan=₂ | c\n|}\n<div class="noprint">np</div>\n'))
    a(("span-5000-digits", '{|\n| colspan="' + "9" * 5000 + '" | a\n| b\n|}\n'))
    # a list-only table row with more than five items in which a nested list equals one of the cell's own lists
    a(("list-row-nested-equals-toplevel", "{|\n|\n* a\n** none\n* b\n* c\n* d\n* e\n* f\n\n* none\n|\n* x\n* y\n|}\n"))
    # three levels of tables: a container whose cells hold only tables, one of which holds a table itself (> 500 characters inside)
    filler = "lorem ipsum dolor " * 35
    a(("tables-three-levels", "{|\n|\n{|\n| " + filler + "\n{|\n| innermost || cell\n|}\n|}\n|\n{|\n| second || table\n|}\n|}\n"))
    a(("tables-three-levels-rows", "{|\n|\n{|\n| " + filler + "\n|-\n|\n{|\n| innermost\n|}\n|}\n|-\n|\n{|\n| second\n|}\n|}\n"))
    # a definition list emptied by an earlier pass (its only entry was a 'See also' heading), followed by an entry
    a(("dl-emptied-then-dd", "text\n<dl><h2>''See also''</h2></dl>\n: foo\n"))
    return T


SIGMA_CLEAN = build()
