"""A synthetic MediaWiki behind the fetcher's HTTP boundary (C11).

Implements what mwlib.network.sapi.MwApi asks for: action=query (meta=siteinfo; prop=revisions|templates|images|categories|
imageinfo|info|contributors; titles/revids; redirects), action=expandtemplates, action=parse.  The wiki is static; which
response is delivered when is decided by the explorer, not here.
"""
import hashlib
import re

REDIRECT = re.compile(r"^#REDIRECT\s*\[\[(.*?)\]\]", re.I)
LINK_IMG = re.compile(r"\[\[(File:[^|\]]+)")
TEMPL = re.compile(r"\{\{([^{}|:#]+?)(?:\|[^{}]*)?\}\}")

API = "http://wiki.example/w/api.php"
BASE = "http://wiki.example/w/"


class SynthWiki:
    def __init__(self, pages, images=(), contributors=None):
        """pages: {title: [(revid, text), ...]} oldest first; images: titles 'File:X.png'"""
        from mwlib.network.siteinfo import get_siteinfo
        self.si = get_siteinfo("en")
        self.pages = {}
        pid = 0
        for title, revs in pages.items():
            pid += 1
            ns = 10 if title.startswith("Template:") else 6 if title.startswith("File:") else 0
            self.pages[title] = {"pageid": pid, "ns": ns, "title": title, "revs": list(revs)}
        self.images = set(images)
        for t in self.images:
            if t not in self.pages:
                pid += 1
                self.pages[t] = {"pageid": pid, "ns": 6, "title": t, "revs": [(9000 + pid, "description of " + t)]}
        self.contributors = contributors or {}
        self.byrev = {}
        for p in self.pages.values():
            for (r, txt) in p["revs"]:
                self.byrev[r] = (p, txt)
        self.log = []

    # ------------------------------------------------------------------ content helpers
    def current(self, title):
        return self.pages[title]["revs"][-1]

    def redirect_target(self, title):
        if title not in self.pages:
            return None
        m = REDIRECT.match(self.current(title)[1])
        return m.group(1).strip() if m else None

    def resolve(self, title, hops=None):
        """follow redirects like the API does; -> final title, list of {'from','to'}"""
        red = []
        seen = {title}
        cur = title
        while True:
            tgt = self.redirect_target(cur)
            if tgt is None or tgt in seen and tgt != cur and False:
                break
            if tgt in seen:
                # circular: the hop that closes the circle is reported like every other one (MediaWiki processes the redirect row
                # of every page it loads), then resolution stops and the redirect page itself is returned
                if {"from": cur, "to": tgt} not in red:
                    red.append({"from": cur, "to": tgt})
                break
            red.append({"from": cur, "to": tgt})
            seen.add(tgt)
            cur = tgt
            if len(red) > 5:
                break
        return cur, red

    def expand(self, text, depth=0):
        """server-side template expansion (simple, deterministic): {{T}} / {{T|arg}} -> body with {{{1}}} replaced; {{:Page}} -> page text"""
        if depth > 8:
            return text

        def rep(m):
            raw = m.group(0)[2:-2]
            name, _, arg = raw.partition("|")
            name = name.strip()
            if name.startswith(":"):
                t = name[1:]
            else:
                t = "Template:" + name
            final, _ = self.resolve(t)
            if final not in self.pages or self.redirect_target(final):
                return "[[:%s]]" % (t if name.startswith(":") else t)
            body = self.current(final)[1]
            body = body.replace("{{{1}}}", arg)
            return self.expand(body, depth + 1)
        return re.sub(r"\{\{[^{}]*\}\}", rep, text)

    def used_templates(self, text, acc=None, depth=0):
        acc = acc if acc is not None else []
        if depth > 8:
            return acc
        for m in re.finditer(r"\{\{([^{}|:#]+?)(?:\|[^{}]*)?\}\}", text):
            t = "Template:" + m.group(1).strip()
            if t in self.pages and t not in acc:
                acc.append(t)
                self.used_templates(self.current(t)[1], acc, depth + 1)
        return acc

    def used_images(self, text):
        out = []
        for m in LINK_IMG.finditer(self.expand(text)):
            t = m.group(1).strip()
            if t not in out:
                out.append(t)
        return out

    def image_bytes(self, title):
        return ("PNGDATA:" + title).encode("utf-8") * 20

    def image_for_url(self, url):
        name = url.rsplit("/", 1)[1]
        name = name.split("px-")[-1]
        return "File:" + name.replace("_", " ")

    # ------------------------------------------------------------------ API
    def handle(self, kw):
        kw = {k: (v.decode("utf-8") if isinstance(v, bytes) else v) for k, v in kw.items()}
        self.log.append(dict(kw))
        action = kw.get("action")
        if action == "query":
            return self.query(kw)
        if action == "expandtemplates":
            return {"expandtemplates": {"wikitext": self.expand(kw.get("text", ""))}}
        if action == "parse":
            t = kw.get("page")
            if t is None and kw.get("oldid"):
                p = self.byrev.get(int(kw["oldid"]))
                t = p[0]["title"] if p else None
            if t is None or self.resolve(str(t).replace("_", " "))[0] not in self.pages:
                # (what MediaWiki answers for a page that does not exist)
                return {"error": {"code": "missingtitle", "info": "The page you specified doesn't exist."}}
            return {"parse": {"title": t, "text": {"*": "<div class=\"mw-parser-output\"><p>html of %s</p></div>" % t}}}
        return {"error": {"code": "unknown_action", "info": "unknown action %r" % action}}

    def query(self, kw):
        q = {}
        if kw.get("meta") == "siteinfo":
            for k in (kw.get("siprop") or "general").split("|"):
                if k in self.si:
                    q[k] = self.si[k]
            return {"query": q}
        props = [p for p in (kw.get("prop") or "").split("|") if p]
        pages = {}
        redirects = []
        targets = []  # (page dict or None, title, revision tuple or None)
        if kw.get("titles"):
            for t in str(kw["titles"]).split("|"):
                t = t.strip().replace("_", " ")
                t = t[:1].upper() + t[1:]
                final = t
                if str(kw.get("redirects", "")) in ("1", "True", "true"):
                    final, red = self.resolve(t)
                    for r in red:
                        if r not in redirects:
                            redirects.append(r)
                targets.append((self.pages.get(final), final, None))
        if kw.get("revids"):
            for r in str(kw["revids"]).split("|"):
                hit = self.byrev.get(int(r))
                if hit:
                    targets.append((hit[0], hit[0]["title"], (int(r), hit[1])))
                else:
                    q.setdefault("badrevids", {})[r] = {"revid": int(r)}
        missing = 0
        for page, title, rev in targets:
            if page is None:
                missing += 1
                pages[str(-missing)] = {"ns": 0, "title": title, "missing": ""}
                continue
            e = pages.setdefault(str(page["pageid"]), {"pageid": page["pageid"], "ns": page["ns"], "title": page["title"]})
            revid, text = rev if rev else page["revs"][-1]
            rvprop = (kw.get("rvprop") or "").split("|")
            if "revisions" in props:
                r = {"revid": revid, "parentid": 0}
                if "content" in rvprop:
                    r["*"] = text
                    r["user"] = "Editor"
                    r["timestamp"] = "2020-01-01T00:00:00Z"
                e.setdefault("revisions", [])
                if r not in e["revisions"]:
                    e["revisions"].append(r)
            if "templates" in props:
                tl = [{"ns": 10, "title": t} for t in self.used_templates(text)]
                if tl:
                    e["templates"] = tl
            if "images" in props:
                il = [{"ns": 6, "title": t} for t in self.used_images(text)]
                if il:
                    e["images"] = il
            if "categories" in props:
                pass
            if "imageinfo" in props and page["title"] in self.images:
                name = page["title"].split(":", 1)[1].replace(" ", "_")
                w = kw.get("iiurlwidth", 800)
                e["imageinfo"] = [{"url": "http://wiki.example/images/%s" % name, "descriptionurl": "http://wiki.example/wiki/File:%s" % name,
                                   "thumburl": "http://wiki.example/images/thumb/%spx-%s" % (w, name), "width": 640, "height": 480,
                                   "size": 1234, "sha1": hashlib.sha1(self.image_bytes(page["title"])).hexdigest(), "user": "Uploader", "comment": "c"}]
                e["imagerepository"] = "local"
            if "info" in props:
                e["fullurl"] = "http://wiki.example/wiki/" + page["title"].replace(" ", "_")
            if "contributors" in props:
                c = self.contributors.get(page["title"], {"named": ["Editor"], "bots": [], "anon": 0})
                if c["named"] or c["bots"]:  # (MediaWiki omits the key for a page without registered contributors)
                    e["contributors"] = [{"userid": i + 1, "name": n} for i, n in enumerate(c["named"] + c["bots"])]
                if c["anon"]:
                    e["anoncontributors"] = c["anon"]
        # result limits with old-style continuation: the limit counts items over all pages of the request, in page order
        qc = {}
        for prop, prefix in (("templates", "tl"), ("images", "im"), ("contributors", "pc")):
            if prop not in props:
                continue
            limit = int(kw.get(prefix + "limit") or 500)
            flat = [(pid, i) for pid, e in pages.items() for i in range(len(e.get(prop, [])))]
            start = 0
            cont = kw.get(prefix + "continue")
            if cont:
                cp, ci = str(cont).split("|")
                start = flat.index((cp, int(ci))) if (cp, int(ci)) in flat else len(flat)
            keep = set(flat[start:start + limit])
            for pid, e in pages.items():
                if prop in e:
                    kept = [x for i, x in enumerate(e[prop]) if (pid, i) in keep]
                    if kept:
                        e[prop] = kept
                    else:
                        del e[prop]
                if prop == "contributors" and cont and "anoncontributors" in e:
                    del e["anoncontributors"]  # reported with the first batch only
            if start + limit < len(flat):
                nxt = flat[start + limit]
                qc[prop] = {prefix + "continue": "%s|%d" % nxt}
        if pages:
            q["pages"] = pages
        if redirects:
            q["redirects"] = redirects
        out = {"query": q}
        if qc:
            out["query-continue"] = qc
        return out
