"""Shared wikitext alphabets (DESIGN §2).  Everything here is a fixed, ordered list – spaces built from these are
enumerated completely, never sampled."""

EBAD = ""
LRM = "‎"

# --- SIGMA: one lexeme per scanner rule and per shortcut visible in core.py / parse_table.py / tagparser.py / uniq.py
PLAIN = ["a", " ", "\n", "\n\n", "\t", "\r"]
LINESTART = ["\n*", "\n#", "\n:", "\n;", "\n ", "\n----", "\n==", "==\n", "\n===", "{|", "\n{|", "\n|}", "\n|-", "\n|", "||", "\n!", "!!", "\n|+"]
INLINE = ["''", "'''", "'''''", "''''", "''''''", "[[", "]]", "[", "]", "{{", "}}", "{{{", "}}}", "=", "|", ":"]
URLS = ["http://x.y", "[http://x.y", "//x.y", "mailto:a@b"]
ENTITIES = ["&amp;", "&#65;", "&#x41;", "&#99999999999;", "&#xD800;", "&#0;", "&#x110000;", "&bogus;",
            # what only looks like a numeric reference (the scanner does not take it for one, the entity decoder of nowiki/pre bodies does)
            "&#xyz;", "&#12ab;", "&#x;", "&#-5;"]
HTML_TAGS = ["b", "i", "u", "s", "small", "sup", "sub", "span", "div", "center", "blockquote", "p", "ul", "ol", "li", "dl", "dt",
             "dd", "table", "tr", "td", "th", "caption", "h2", "br", "hr", "code", "tt", "font", "abbr", "references", "inputbox"]
EXT_TAGS = ["nowiki", "pre", "math", "source", "syntaxhighlight", "timeline", "gallery", "imagemap", "poem", "ref", "pages",
            "rot13", "hiero", "listing"]
TAGS_OPEN = ["<%s>" % t for t in HTML_TAGS + EXT_TAGS]
TAGS_CLOSE = ["</%s>" % t for t in HTML_TAGS + EXT_TAGS]
TAGS_SELF = ["<%s/>" % t for t in HTML_TAGS + EXT_TAGS]

# --- attributes: every tag (and the wiki-table syntax positions) x attribute name x value spelling
ATTR_NAMES = ["class", "style", "id", "name", "colspan", "rowspan", "width", "align", "CLASS", "group"]
ATTR_VALUES = ["5", '"5"', "'007'", '"a b"', '""', "red", '"display:none"', '"width:5px;height:1e5em"', "-1", "99999999999999999999", "1.5",
               '"boilerplate metadata"', "5 5", "=", "&amp;"]
ATTR_HOSTS = ([(t, "<%s %%s>x</%s>" % (t, t)) for t in HTML_TAGS + EXT_TAGS] + [(t + "/", "<%s %%s/>" % t) for t in HTML_TAGS + EXT_TAGS] +
              [("wikitable", "{| %s\n| x\n|}\n"), ("wikirow", "{|\n|- %s\n| x\n|}\n"), ("wikicell", "{|\n| %s | x\n|}\n"),
               ("wikiheader", "{|\n! %s | x\n|}\n"), ("wikicaption", "{|\n|+ %s | x\n|-\n| y\n|}\n"),
               ("nested-div", "<div class=\"outer\"><div %s>x</div></div>\n"), ("li-div", "* <div %s>x</div>\n")])
TAGS_STYLED = ['<div style="display:inline">', '<span style="display:inline">', '<table style="display:inline">',
               '<ref name=a/>', '<ref name="a">', '<pages from=1 to=2 index=a/>', '<td colspan=2>', '<font color=red>',
               # numbers that select an amount of work or exceed a conversion limit
               '<pages from=a to=b/>', '<pages index=a from=1 to=9999999/>', '<pages index=a from=-99999999 to=5/>', '<td colspan=30000000>', '<td rowspan=99999999>',
               "<imagemap>\nImage:A.png\ncircle 1 2 " + "9" * 5000 + " [[a]]\n</imagemap>", "<imagemap>\nImage:A.png\nrect 1 2 3 4 [[a]]\n</imagemap>",
               '<gallery perrow=99999999>', '<ol start=99999999999999999999>', '<timeline>a</timeline>', '<hiero>a</hiero>']
COMMENTS = ["<!--", "-->", "<!-- c -->"]
MAGIC = ["__TOC__", "__NOTOC__"]
NSWORDS = ["File:A.png", "Image:A.png", "Category:C", "en:", "Talk:"]
IMGMODS = ["thumb", "left", "100px", "alt="]
TEMPLATES = ["{{T}}", "{{T|", "{{#if:", "{{PAGENAME}}"]
SPECIALS = ["\0", "\x7f", EBAD, LRM, "\U0001F600", "́",
            # strip markers the parser did not issue itself (leaked into wikitext by copy and paste) and one it will issue
            "\x7fUNIQ-ref-7-0123456789abcdef-QINU\x7f", "\x7fUNIQ-nowiki-0-0123456789abcdef-QINU\x7f", "\x7fUNIQ-math-99-abc-QINU\x7f", "\x7fUNIQ-"]

SIGMA = (PLAIN + LINESTART + INLINE + URLS + ENTITIES + TAGS_OPEN + TAGS_CLOSE + TAGS_SELF + TAGS_STYLED + COMMENTS +
         MAGIC + NSWORDS + IMGMODS + TEMPLATES + SPECIALS)

# --- SIGMA_CORE: one per token type plus the table/list/quote/link/brace openers and closers
SIGMA_CORE = ["a", " ", "\n", "\n\n", "\n*", "\n#", "\n:", "\n;", "\n ", "\n==", "==\n", "\n{|", "\n|}", "\n|-", "\n|", "||", "\n!",
              "\n|+", "''", "'''", "[[", "]]", "[", "]", "{{", "}}", "|", "=", "http://x.y", "&amp;", "<b>", "</b>", "<ref>", "</ref>",
              "<div>", "</div>", "<br/>", "<!--", "-->", "<nowiki>", "</nowiki>", "File:A.png", "{{T}}", "<table>", "<td>", "<li>",
              "<math>", "\n----", "<gallery>", "</gallery>"]

# --- CTX: embedding contexts with a hole (%s)
CTX = [
    ("top", "%s"),
    ("after-heading", "== h ==\n%s"),
    ("heading-text", "== %s ==\n"),
    ("bullet", "* %s\n"),
    ("bullet2", "** %s\n"),
    ("numbered", "# %s\n"),
    ("definition", "; t : %s\n"),
    ("indent", ": %s\n"),
    ("pre-line", " %s\n"),
    ("table-caption", "{|\n|+ %s\n|-\n| c\n|}"),
    ("table-header", "{|\n! %s\n|}"),
    ("table-cell", "{|\n|-\n| %s\n|}"),
    ("table-cell-attr", '{|\n|-\n| %s | c\n|}'),
    ("table-attr", "{| %s\n|-\n| c\n|}"),
    ("nested-table-cell", "{|\n|\n{|\n| %s\n|}\n|}"),
    ("link-target", "[[%s]]"),
    ("link-caption", "[[A|%s]]"),
    ("image-caption", "[[File:A.png|thumb|%s]]"),
    ("extlink-caption", "[http://x.y %s]"),
    ("bold", "'''%s'''"),
    ("italic", "''%s''"),
    ("div", "<div>%s</div>"),
    ("center", "<center>%s</center>"),
    ("blockquote", "<blockquote>%s</blockquote>"),
    ("ref", "x<ref>%s</ref>\n<references/>"),
    ("gallery", "<gallery>\nFile:A.png|%s\n</gallery>"),
    ("poem", "<poem>%s</poem>"),
    ("tmpl-positional", "{{E|%s}}"),
    ("tmpl-named", "{{E|1=%s}}"),
    ("li", "<ul><li>%s</li></ul>"),
    ("between-blocks", "* a\n%s\n{|\n| c\n|}"),
    ("eot", "a %s"),
    ("image-caption-div", "[[File:A.png|thumb|cap <div>%s</div>]]"),
    ("image-caption-li", "[[File:A.png|thumb|<ul><li>%s</li></ul>]]"),
    ("indent-table-cell", ":{|\n|-\n| outer\n%s\n|}\n"),
    ("deflist-desc", "; t\n: %s\n"),
    ("pre-in-indent-table", ":{|\n|-\n| a\n  pre %s text\n|}\n"),
    # inside the extension tags whose body gets a treatment of its own (entity decoding, no markup)
    # a heading line that runs across table cells, twice, with something in between
    ("heading-across-cells", "{|\n== a || b ==\n%s\n== c || d ==\n|}"),
    ("nowiki", "a<nowiki>%s</nowiki>b"),
    ("pre-tag", "<pre>%s</pre>"),
    ("source", "<source lang=c>%s</source>"),
    ("math", "<math>%s</math>"),
]

# --- TU: template universes behind the page ("with arbitrary template pages")
TU_BODIES = ["{{{1}}}", "{{{1|d}}}", "x|y", "\n* a", "{|", "|}", "|-\n| c", "</div>", "<ref>", "'''", "[[", "{{T}}", "{{U}}",
             "<noinclude>n</noinclude>i", "<includeonly>", "", "{{{1", "}}", "<nowiki>", "==",
             # recursion routed through tag extensions whose body is expanded and parsed again
             "<ref>{{T}}</ref>", "a<ref>{{U}}</ref>", "<poem>{{T}}</poem>", "<gallery>\nFile:A.png|{{T}}\n</gallery>", "<ref>{{E|{{T}}}}</ref>",
             "<pages index=a from=1 to=3/>{{T}}", "<pages index=a from=1 to=1/>", "x<pages index=a from=2 to=3/>y", "<imagemap>\nImage:A.png\ndefault [[{{T}}]]\n</imagemap>"]


def template_universe(body):
    """T has the given body; U calls T (so {{U}} in T is a cycle); E echoes its first argument"""
    # A/1..A/3: the pages a <pages index=a from=1 to=3/> tag transcludes; the first one calls T again
    return {"T": body, "U": "{{T}}", "E": "{{{1}}}", "A/1": "{{T}}p1", "A/2": "p2<ref>{{T}}</ref>", "A/3": "p3"}


NESTABLE = [
    ("[[", "[[", "]]"), ("{{", "{{", "}}"), ("{{{", "{{{", "}}}"), ("{|", "\n{|\n|", "\n|}"), ("*", "\n*", ""), (":", "\n:", ""),
    ("''", "''", "''"), ("div", "<div>", "</div>"), ("span", "<span>", "</span>"), ("b", "<b>", "</b>"), ("ref", "<ref>", "</ref>"),
    ("blockquote", "<blockquote>", "</blockquote>"), ("table", "<table><tr><td>", "</td></tr></table>"), ("ul", "<ul><li>", "</li></ul>"),
]


def localized_words(siteinfo):
    """namespace names / magic word spellings of a site, to be substituted for the English ones in SIGMA"""
    ns = siteinfo["namespaces"]
    out = {}
    out["File"] = ns["6"]["*"]
    out["Category"] = ns["14"]["*"]
    out["Talk"] = ns["1"]["*"]
    return out


def localize(lexemes, siteinfo):
    w = localized_words(siteinfo)
    res = []
    for lx in lexemes:
        for en, loc in w.items():
            if lx.startswith(en + ":"):
                lx = loc + lx[len(en):]
        res.append(lx)
    return res
