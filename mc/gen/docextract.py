"""Read the structural ancestor chain of every wNN token off an mwlib (advanced) tree – the observation side of the
denotation oracle (C02, C07).  Only the classes the denotation talks about become labels; Paragraph wrappers, generic
Nodes, whitespace-only text and BreakingReturns are transparent (DESIGN §2 C02 calibration rule)."""
import re

TOKEN = re.compile(r"w\d\d")
STYLE_CLASSES = {"Emphasized", "Strong", "Underline", "Strike", "Small", "Sup", "Sub", "Big", "Code", "Teletyped", "Italic", "Bold",
                 "Cite", "Overline", "Deleted", "Inserted", "Var"}
ALIASES = {"Italic": "Emphasized", "Bold": "Strong"}
LINK_CLASSES = {"ArticleLink", "NamespaceLink", "CategoryLink", "ImageLink", "InterwikiLink", "LangLink", "SpecialLink", "Link"}


def label(node, parent, idx):
    nm = type(node).__name__
    if nm == "Section":
        return "Section:%s" % getattr(node, "level", "?")
    if nm == "ItemList":
        return "ItemList:" + ("ol" if getattr(node, "numbered", False) else "ul")
    if nm in ("Item", "DefinitionList", "DefinitionTerm", "DefinitionDescription", "Table", "Row", "Caption", "PreFormatted", "Reference"):
        return nm
    if nm == "Cell":
        return "Cell:h" if getattr(node, "is_header", False) else "Cell"
    if nm in STYLE_CLASSES:
        return ALIASES.get(nm, nm)
    if nm in LINK_CLASSES:
        return "%s:%s" % (nm, (getattr(node, "target", "") or "").strip())
    if nm == "NamedURL":
        return "NamedURL:%s" % getattr(node, "caption", "")
    if nm == "URL":
        return "URL:%s" % getattr(node, "caption", "")
    return None


def extract(root):
    """-> list of (token, chain) in document order"""
    out = []

    def rec(node, chain, parent, idx):
        nm = type(node).__name__
        lab = label(node, parent, idx)
        c2 = chain + ((lab,) if lab else ())
        if parent is not None and type(parent).__name__ == "Section" and idx == 0:
            c2 = c2 + ("@heading",)
        if nm == "Text":
            for t in TOKEN.findall(node.caption or ""):
                out.append((t, c2))
            return
        if nm in LINK_CLASSES and not node.children:
            for t in TOKEN.findall((getattr(node, "target", "") or "").lower()):
                out.append((t, c2 + ("@target",)))
        if nm == "URL" and not node.children:
            for t in TOKEN.findall(getattr(node, "caption", "") or ""):
                out.append((t, c2 + ("@target",)))
        if nm == "NamedURL" and not node.children:
            pass
        for i, c in enumerate(node.children):
            rec(c, c2, node, i)

    rec(root, (), None, 0)
    return out
