"""./check <ID> --tier quick|thorough [--replay file] [--json] [--no-gate]"""
import argparse
import importlib
import json
import logging
import os
import sys


def main(argv):
    ap = argparse.ArgumentParser()
    ap.add_argument("prop")
    ap.add_argument("--tier", default=os.environ.get("VERIF_TIER", "quick"), choices=["quick", "thorough"])
    ap.add_argument("--replay")
    ap.add_argument("--json", action="store_true")
    ap.add_argument("--no-gate", action="store_true")
    args = ap.parse_args(argv)
    seed = int(os.environ.get("VERIF_SEED", "0") or 0)
    # PYTHONHASHSEED of this process and all (forked) workers is a function of VERIF_SEED
    want = str(seed % 4294967295)
    preload = None
    if args.prop.upper() == "C20":
        from mc.core import fsfault
        preload = fsfault.ensure_shim()
    need_exec = os.environ.get("PYTHONHASHSEED") != want and not os.environ.get("VERIF_NO_REEXEC")
    if preload and preload not in os.environ.get("LD_PRELOAD", ""):
        need_exec = True
    if need_exec:
        env = dict(os.environ)
        env["PYTHONHASHSEED"] = want
        env["VERIF_NO_REEXEC"] = "1"
        if preload:
            env["LD_PRELOAD"] = preload
        os.execve(sys.executable, [sys.executable, os.path.abspath(sys.argv[0])] + argv, env)
    os.environ.setdefault("MWLIB_FETCH_MAX_REQUESTS_PER_SECOND", "0")
    if os.environ.get("VERIF_REPO"):
        # (seed regression only: check a scratch copy of the repository instead of /repo)
        sys.path.insert(0, os.path.join(os.environ["VERIF_REPO"], "src"))
    from mc.core import build
    try:
        build.ensure_built()
    except build.BuildError as e:
        print("BUILD-ERROR (tree does not compile; no verdict):", e)
        return 2
    logging.disable(logging.CRITICAL)
    pid = args.prop.upper()
    try:
        mod = importlib.import_module("mc.props." + pid.lower())
    except Exception:
        import traceback
        traceback.print_exc()
        print("IMPORT-ERROR (code under test or harness does not import; no verdict)")
        return 2
    prop = mod.PROP
    if args.replay:
        with open(args.replay) as f:
            rec = json.load(f)
        out = prop.replay(rec)
        print("REPLAY-OUTCOME " + json.dumps(out, default=repr))
        return 1 if out.get("violated") else 0
    return prop.main(args.tier, seed, gate=not args.no_gate)
