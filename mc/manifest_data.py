"""Check table for MANIFEST.json (regenerate with ./tools_gen_manifest.py)."""
HOOK_COMMITS = []
NOT_APPLICABLE = {}
SMALL_SCOPE = ("bounded-exhaustive input enumeration on the implementation (small-scope model checking of a sequential "
               "library; not a state-graph search): every case of the stated finite space is executed, none sampled. ")
CHECKS = {
    "C10": {
        "engine": "input-enum", "category": "model_checking", "design_ref": "DESIGN.md §2 C10",
        "technique": "bounded-exhaustive enumeration of lexeme sequences against the tiling law",
        "text": SMALL_SCOPE + "All sequences of <=3 (quick) / <=4 (thorough) lexemes over a 66-lexeme scanner alphabet plus "
                "<=5 / <=7 lexemes over the 12 cursor-rewind lexemes are scanned by the real extension and checked against the tiling law.",
        "note": "alphabet chosen from the re2c rules; longer inputs and characters outside the alphabet are not covered; scanner rebuilt from _uscan.cc (re2c not installed, _uscan.re is not consulted)",
    },
}
