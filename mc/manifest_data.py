"""Check table for MANIFEST.json (regenerate with ./tools_gen_manifest.py)."""
HOOK_COMMITS = []
NOT_APPLICABLE = {}
SMALL_SCOPE = ("bounded-exhaustive input enumeration on the implementation (small-scope model checking of a sequential "
               "library; not a state-graph search): every case of the stated finite space is executed, none sampled. ")
CHECKS = {
    "C10": {
        "engine": "input-enum", "category": "model_checking", "design_ref": "DESIGN.md §2 C10",
        "technique": "bounded-exhaustive enumeration of lexeme sequences against the tiling law",
        "text": SMALL_SCOPE + "All sequences of <=3 (quick) / <=4 (thorough) lexemes over a 66-lexeme scanner alphabet plus "
                "<=5 / <=7 lexemes over the 12 cursor-rewind lexemes are scanned by the real extension and checked against the tiling law (scan() and the tokenize() stream the parser consumes); single tokens of every class at sizes around 2^8..2^17; plus a free-running pass: two OS threads scanning different texts concurrently, each result compared with the single-threaded scan (counted separately, not called exhaustive).",
        "note": "alphabet chosen from the re2c rules; longer inputs and characters outside the alphabet are not covered; scanner rebuilt from _uscan.cc (re2c not installed, _uscan.re is not consulted)",
    },
    "C16": {
        "engine": "chub-bfs", "category": "model_checking", "design_ref": "DESIGN.md §3 C16",
        "technique": "explicit-state BFS over event-loop iterations of the real queue server under a controlled gevent hub; conservation invariant + drain probe in every state",
        "text": "Explicit-state exploration of the implementation itself: real workq/QPlugin/handle_client on in-memory sockets, controlled hub, every ordered "
                "set of <=K coinciding arrivals per event-loop iteration, every waiter choice, canonical-state de-duplication (worker permutation x channel swap). "
                "In every quiescent state: each accepted unfinished job is in exactly one place (white box) and a fresh worker can drain exactly those jobs (black box).",
        "note": "quick: total cost <=8 (events + loop runs), K=2, 3 jobs; thorough: cost <=8, K=3, 4 jobs, two timeouts, under a time cap (evidence states the last completed level). Assumes gevent's FIFO callback order; the hub is virtual (no libev, no sockets).",
    },
    "C17": {
        "engine": "chub-bfs", "category": "model_checking", "design_ref": "DESIGN.md §3 C17",
        "technique": "same explicit-state BFS; lock-step comparison of every RPC return and every quiescent state with a sequential reference model",
        "text": "Same exploration as C16 over the alphabet extended with re-add and wait; every atomic step of the linearised trace is fed to a boring reference "
                "model (mc/ref/queue_ref.py) which predicts each return value: channel eligibility, never a finished job, (priority, serial) order, first-of-finish/kill/timeout wins, "
                "wait released exactly when finished, idempotent add, counters (getstats/qinfo observed in every state). Further phases: a narrow configuration to a deeper bound, falsy client ids ('' and 0), client ids that are the next server numbers.",
        "note": "bounds as C16; the reference model is given the implementation's nondeterministic waiter choice, it never demands a particular one.",
    },
    "C18": {
        "engine": "chub-bfs", "category": "model_checking", "design_ref": "DESIGN.md §3 C18",
        "technique": "same BFS with a save/restore transition (real pickle path) enabled in every quiescent state, exploration continues after it; plus exhaustive enumeration of add/qdrop/finish/kill/restart histories (depth 6 for one id, 4 for two; thorough 8/5) on the real db object against a dict reference",
        "text": "The restart step is Main.savedb() to a scratch directory and Main.loaddb() in a fresh Main with all connections dropped; enabled in every state (<=1 quick / <=2 thorough per history); "
                "after it the C16 invariants/drain probe (order included) and the C17 reference model (counters included) stay armed. Further phases: server-assigned ids with error finishes and the watchdog, mixed id types, jobs with three different timeouts (every deadline must still hold after the restart). The state key keeps the layout of both heaps.",
        "note": "server stopped between event-loop iterations only; per-channel outcome counters are not part of the saved state and are not compared after a restart.",
    },
    "C19": {
        "engine": "chub-bfs", "category": "model_checking", "design_ref": "DESIGN.md §3 C19",
        "technique": "BFS over job histories of one collection on the real nserve.Application bound in-process to the real queue; status compared with job objects in every state; exhaustive filename enumeration",
        "text": "Real do_render/do_render_status with the queue proxy bound in-process to the real queue server world; events render/pull/setinfo/finish(4 result shapes, error)/kill/timeout/watchdog(ttl)/EOF; "
                "in every reachable state the status for both writers and an unknown collection is compared with the real job objects. Every history is re-run with a status poll after every event (polled twin); once per process another collection is served by every writer first; second phase: a render job killed and requested again (one writer, one worker, bound 16/20). Content-Disposition: all names of <=3/<=4 symbols over 24 printable symbols.",
        "note": "quick: 6 events deep (cost 12), one render per writer; thorough: 8 events, two renders per writer, time-capped. Header-safety = ASCII token without control/space/;,\" plus RFC 5987 value decoding to the stripped name.",
    },
    "C12": {
        "engine": "input-enum", "category": "model_checking", "design_ref": "DESIGN.md §2 C12",
        "technique": "exhaustive enumeration of title spellings per (site, namespace name) against a reference normal form, plus idempotence",
        "text": SMALL_SCOPE + "site x namespace x every name/alias x case x separator x leading colon x surrounding whitespace/directional marks x remainder x remainder spelling x default namespace; "
                "all spellings must give the one canonical (ns, partial, full); re-normalising the canonical name is the identity; for every ordered pair of sites, site B is asked - after a handler of site A was used in the same process - with every namespace name any bundled site knows.",
        "note": "quick: en/de/ja and default namespaces {0,10}; thorough: all 12 bundled sites, 5 default namespaces (64M splitname calls). Which capital a letter maps to (ß, ǆ) is not judged. Namespace names that are ambiguous within a site are skipped and counted.",
    },
    "C13": {
        "engine": "input-enum", "category": "model_checking", "design_ref": "DESIGN.md §2 C13",
        "technique": "exhaustive enumeration of small metabooks; round trip, fixed point, id invariance/sensitivity, all-pairs id injectivity by grouping",
        "text": SMALL_SCOPE + "all metabooks with <=2 (quick) / <=3 (thorough) items over 24 articles + 14 chapters, x optional-field presence; 8 serialisation variants (incl. explicit nulls), single-field and URL-component mutations, both make_collection_id implementations (nserve, serve), class-aware round trip, histories load/modify/load on one text, blank-only pairs, and the same request identified in child interpreters with hash seeds 1..6.",
        "note": "field values from small fixed domains; equality is recursive _json() equality.",
    },
    "C14": {
        "engine": "input-enum", "category": "model_checking", "design_ref": "DESIGN.md §2 C14",
        "technique": "exhaustive enumeration of write histories through the real FsOutput -> zip -> make_wiki path, all lookup spellings; fs_escape injectivity over all short canonical titles",
        "text": SMALL_SCOPE + "texts x titles x 4 write methods x all write orders of 3 records; redirects incl. chains; image titles in en/de x namespace aliases/case/underscore/percent spellings and runs of separators; pairs of image titles differing by case, separators, NFC and compatibility characters; 3.4k canonical titles for file-name injectivity.",
        "note": "one known finding (text starting with FF + ' --page-- ') is reported as KNOWN-FINDING; texts containing the full record separator and %XX titles are excluded as the statement says.",
    },
    "C15": {
        "engine": "input-enum", "category": "model_checking", "design_ref": "DESIGN.md §2 C15",
        "technique": "exhaustive enumeration of member names against a lexical reference resolution, with a file-system snapshot diff of a private sandbox",
        "text": SMALL_SCOPE + "every member name over 6 components x {/,\\} x relative/absolute up to 4 (quick) / 5 (thorough) components, as middle member of a 3-member archive, 4 destination spellings, "
                "through nuwiki.extractall, and the short names also through nuwiki.Adapt(zipfile) and wiki.extract_wiki(multi-nuwiki).",
        "note": "POSIX semantics; no symlinks in the destination; all hostile names resolve inside a 6-level-deep private sandbox so that a broken implementation cannot damage the machine.",
    },
    "C20": {
        "engine": "fsfault", "category": "fault_enumeration", "design_ref": "DESIGN.md §3 C20",
        "technique": "exhaustive crash-point / torn-write / injected-error enumeration over the recorded file-system operation history of each producer (LD_PRELOAD shim, forked child per schedule)",
        "text": "For each producer history (Status x3 dumps, buildzip.make_zip, ZipCreator.create_zip, fetch.download_to_file, the mw-render command with the real rl writer; each with and without a complete previous version) "
                "the file-system operations are recorded and then the process is killed before every operation, after half of every write, every operation fails once with ENOSPC/EIO, and (status in quick, all small producers in thorough) every error-then-crash pair, every crash followed by a second run in the same directory, and the disk filling up inside every write (half stored, short count returned, ENOSPC from then on). "
                "The surviving parent checks that the published path is absent, the complete previous version, or a complete new version.",
        "note": "process kill semantics (completed syscalls persist); libc-level interposition of the calls CPython, zipfile, shutil and reportlab use; producers' network/collection inputs are stubbed at make_nuwiki / the httpx client.",
    },
    "C01": {
        "engine": "input-enum", "category": "model_checking", "design_ref": "DESIGN.md §2 C01",
        "technique": "bounded-exhaustive enumeration of wikitext over the full lexeme alphabet (flat, embedding contexts, template universes, nesting to depth 40, 12 languages) plus pumped growth measurement",
        "text": SMALL_SCOPE + "families flat (SIGMA^<=2 with/without database, SIGMA_CORE^3), ctx (42 contexts x SIGMA, incl. inside nowiki/pre/source/math and a heading line across table cells), tagattr (every tag and wiki-table position x attribute x value spelling), templ (template bodies incl. tag-routed recursion x l1 x l2 x call/arg, swept over three caller stack depths), nest (14 constructs x depths to 40 x closed/open/crossed), "
                "lang (12 sites; every namespace name any site knows as a link prefix on every site, with/without database), pump (every lexeme x frames, n=32/128/512, growth exponent); oracle: returns an Article, no exception of any kind, watchdog (20 s CPU per parse) not hit, exponent <= 3.3 (smallest of up to 3 back-to-back rounds).",
        "note": "alphabet of about 240 lexemes in mc/gen/wikitext.py (incl. forged strip markers, malformed numeric references, numbers that select an amount of work); polynomial time is measured on pumped families, not proved; a pumped lexeme that recurses at n>=128 is a nesting opener and counted as outside the property (depth > 40).",
    },
    "C05": {
        "engine": "input-enum", "category": "model_checking", "design_ref": "DESIGN.md §2 C05/C06",
        "technique": "transition system: state = document tree, transition = cleaning pass; tree invariant checked in every state from an exhaustively enumerated set of initial trees",
        "text": "States are trees, transitions the 57 entries of TreeCleaner.cleaner_methods in order, initial states the parse of every input of the enumerated families (cleaner-trigger alphabet^<=2 [thorough: + x contexts, ^3 subset], "
                "SIGMA^1, SIGMA_CORE^2 [^3], contexts x SIGMA_CORE [x SIGMA], document grammar, line breaks in every wrapper, malformed lists in lists, nesting to depth 220, one cleaner over two articles, books of <=3 articles x 3 layouts cleaned in one go). An own validator (identity-unique nodes, parent links, acyclic, Text leaves) runs after build_advanced_tree and after every single pass; the container contract after the full sequence.",
        "note": "alphabets in mc/gen/wikitext.py and mc/gen/cleantriggers.py (one trigger per condition visible in treecleaner.py).",
    },
    "C06": {
        "engine": "input-enum", "category": "model_checking", "design_ref": "DESIGN.md §2 C05/C06",
        "technique": "same transition system; progress oracle on every transition (pass returns, no exception, watchdog), fixed-point passes re-applied, clean_all() report free of swallowed errors",
        "text": "Same exploration as C05; each pass is called directly without the catch-all and must return normally within the watchdog; fix_nesting / fix_paragraphs / remove_breaking_returns are applied a second time and must leave the tree unchanged; "
                "clean_all() on a fresh copy must not report ERROR; the articles of a book cleaned as a whole must equal those cleaned in one-article books. Evidence lists how many inputs changed the tree under each pass and which passes never fired.",
        "note": "a pass whose trigger is not in the alphabets is listed under passes_that_never_changed_a_tree in the evidence.",
    },
    "C03": {
        "engine": "input-enum", "category": "model_checking", "design_ref": "DESIGN.md §2 C03",
        "technique": "bounded-exhaustive enumeration of magic-word/parser-function calls (every registered name and site alias x argument tuples), template universes with every cyclic call graph, and malformed template syntax",
        "text": SMALL_SCOPE + "every registered function name (MagicResolver attributes, #-functions, dummy resolvers, magic_nodes.registry) and every alias in the 12 bundled sites x argument count 0..2 (quick) / 0..3 (thorough) x 20 shapes x colon/pipe form; "
                "all universes of 2 (quick) / 3 (thorough) templates over 9 call/parameter items (all call graphs incl. cycles); all strings over a 24-symbol template alphabet up to length 4 / 5. Oracle: str result, no exception, CPU <= the cost of 65000 plain template calls measured in the same process at the same moment (= 2 s on the idle sandbox; best of up to 3 runs), output <= 64 x input + 4096.",
        "note": "argument shapes are a fixed list (incl. huge/negative/decimal/exponent numbers, power towers, paths, nested calls).",
    },
    "C04": {
        "engine": "input-enum", "category": "model_checking", "design_ref": "DESIGN.md §2 C04",
        "technique": "bounded-exhaustive enumeration of #expr trees and template programs against reference interpreters written from the MediaWiki documentation",
        "text": SMALL_SCOPE + "every #expr tree with <=2 operator nodes over 16 binary + 6 unary operators and 6 literals (thorough: + exactly 3 operator nodes over 3 literals), serialised with minimal and with full parentheses, compared numerically with mc/ref/expr_ref.py; "
                "every (T1 body, T2 body, page construct, whitespace variant) of the template grammar (parameters, defaults, positional/named/duplicate bindings, nested calls, #if, #ifeq, #switch with fall-through and #default) compared as strings with mc/ref/tmpl_ref.py (switch keys in both orders, default rules, numeric spellings, padded parameter names, values composed of several pieces with inner blanks); brace-free text unchanged.",
        "note": "the exhaustive bound is by size, not the statement's depth 5/4; undefined reference values (division by zero, negative mod operand) are skipped and counted; digit formatting is not compared.",
    },
    "C09": {
        "engine": "input-enum", "category": "model_checking", "design_ref": "DESIGN.md §2 C09",
        "technique": "bounded-exhaustive enumeration of tag x context x body; body read back between sentinels, tree structure compared with the plain-body structure, protect/restore round trip",
        "text": SMALL_SCOPE + "6 opaque tags x 19 embedding contexts (top, list item, table cell, caption, bold, positional/named template argument, template body, parser-function branches, lc/uc arguments, behind ignored tags, inside re-parsed <ref>/<poem> bodies, beside braces nested too deep to expand) x every body over a 55-lexeme markup alphabet up to length 2 (thorough: plus every body of length 3 over a 24-lexeme subset); "
                "plus functions that consume their argument (urlencode, anchorencode, pad fill): no debris of a marker may reach the document; "
                "the text between two sentinels must be exactly the body (entities decoded for nowiki/pre), the tree must have the structure it has with a plain-word body, and replace_uniq(replace_tags(s)) == s.",
        "note": "two known findings are reported as KNOWN-FINDING (include tags processed inside opaque tags; <nowiki> stripped inside <pre>); bodies containing those lexemes are attributed to them.",
    },
    "C02": {
        "engine": "input-enum", "category": "model_checking", "design_ref": "DESIGN.md §2 C02",
        "technique": "bounded-exhaustive enumeration of documents of a grammar with denotation; equality of every token's structural ancestor chain with the chain its markup denotes",
        "text": SMALL_SCOPE + "every document of grammar G (38-entry block library: headings, paragraphs with styles/links/refs, nested mixed lists, definition lists, tables with header/caption/nested list/nested table, preformatted) "
                "with <=2 blocks (quick: + 3 blocks over a 16-entry core; thorough: 3 blocks over the full library) x 4 spelling variants, one-block documents in all 12 languages. Every text leaf is a unique token; "
                "tokens must occur exactly once, in source order, under exactly the denoted ancestors.",
        "note": "order among inline ancestors (styles/link) is compared as a set; Paragraph/Node wrappers are transparent; one known finding (last preformatted line without trailing newline).",
    },
    "C07": {
        "engine": "input-enum", "category": "model_checking", "design_ref": "DESIGN.md §2 C07",
        "technique": "bounded-exhaustive enumeration of in-domain grammar documents with a differential oracle on the same tree before/after clean_all()",
        "text": SMALL_SCOPE + "every in-domain document of grammar G (every heading followed by body text, no removal trigger) up to the block bound; the visible token sequence, each token's section path, list-item depth and reference must be unchanged by cleaning and tokens of tables with >=2 rows and columns must stay in a table; the tree must show no text but the document's; ordered pairs of articles cleaned by ONE cleaner (reuse / Book) against fresh cleaners; every block twice with identical words, and blocks whose entries repeat inside one list (plain word lists before/after).",
        "note": "documents are far below the cleaner's size heuristics by construction.",
    },
    "C08": {
        "engine": "input-enum", "category": "model_checking", "design_ref": "DESIGN.md §2 C08",
        "technique": "bounded-exhaustive enumeration of stored collections (block alphabet x article/chapter structures) through the whole pipeline, tokens read back from the PDF text / ODF package",
        "text": SMALL_SCOPE + "collections are written with the fetcher's FsOutput, zipped and re-opened with make_wiki: single articles B^1 and B^2 over an 18-entry block alphabet (grammar blocks, template call resolved from the archive, small and large images as thumbnail/inline/gallery/table cell, each use with its own caption), "
                "two-article books B x B with and without chapter, three- and four-article books over all cyclic selections; runs of figures followed by every block, a row taller than a page (fail-safe pass), shared reference names/URLs across articles, templates whose body holds <ref>/<nowiki>/<gallery>, a page-boundary sweep (48 distances), "
                "every block rendered a SECOND time in the same process, output paths with and without '.pdf' ending; rendered by the rl writer entry point (PDF text must contain every token, once per use), the odf entry point (package opens, XML parses, odflint clean) and the rl single-article test mode.",
        "note": "ordinary content only; pdftk/pdfsam are absent, so merging the table of contents degrades to its logged warning; ODF completeness is counted, not judged (the statement asks for well-formed, lint-clean ODF).",
    },
    "C11": {
        "engine": "chub-bfs", "category": "model_checking", "design_ref": "DESIGN.md §3 C11",
        "technique": "exhaustive enumeration of synthetic-wiki configurations on the real fetcher under the controlled gevent hub, plus deviation-bounded enumeration of API response delivery orders (stateless re-execution with a choice prefix)",
        "text": "The real make_nuwiki/StartFetcher/Fetcher/FsOutput run in a greenlet under the driver-controlled hub; MwApi is subclassed only at the HTTP boundary, which blocks until the explorer delivers the synthetic wiki's answer. "
                "Every configuration of the feature product (template depth 0-2, image none/direct/only-through-deepest-template/shared, redirect none/single/chain/self/cycle/into-cycle/dead, revisions single/two/pinned old, second article, missing page, chapters, noimages, API batch size 1/2/50, result limit 1/2/3/500 with continuation) "
                "is fetched under FIFO delivery; for the representative configurations every delivery order with <=1 (quick) / <=2 (thorough) deviations from FIFO is executed. The archive is read back with nuwiki.Adapt and compared with what the wiki serves.",
        "note": "one wiki; no HTTP errors; image downloads complete when requested (only API responses are re-ordered); request batch size 1/2/50 and result limits 1/2/3/500 with old-style query continuation for images and contributors.",
    },
}
