/* LD_PRELOAD shim for C20: crash / torn write / injected error at the k-th file-system operation that touches
 * the sandbox.  "crash" = _exit(137) immediately BEFORE performing operation k: completed system calls persist,
 * whatever is still in user-space buffers dies with the process - a process kill, not a power loss.
 * An operation = open-for-writing / creat / write / pwrite / writev / sendfile / copy_file_range / close of a
 * tracked fd / rename / link / symlink / unlink / truncate / ftruncate / mkdir / rmdir / fsync on a path or fd
 * under the sandbox prefix.  Inert until verif_arm() is called. */
#define _GNU_SOURCE
#include <dlfcn.h>
#include <errno.h>
#include <fcntl.h>
#include <stdarg.h>
#include <stdio.h>
#include <stdlib.h>
#include <string.h>
#include <sys/stat.h>
#include <sys/types.h>
#include <sys/uio.h>
#include <unistd.h>

#define MAXFD 65536
static unsigned char tracked[MAXFD];
static char prefix[4096];
static size_t prefix_len = 0;
static long counter = 0;
static long crash_at = -1;   /* operation index (1-based) at which to die */
static int crash_torn = 0;   /* perform half of a write first */
static long err_at = -1;     /* operation index that fails once */
static int err_no = 0;
static int log_fd = -1;
static int active = 0;
static int disk_full = 0;    /* set by a short write (crash_torn == 2 at err_at): every later write fails with ENOSPC */

#define REAL(name) static __typeof__(name) *real_##name = NULL; if (!real_##name) real_##name = dlsym(RTLD_NEXT, #name)

void verif_arm(const char *pfx, long crash_k, int torn, long err_k, int eno, int logfd) {
    strncpy(prefix, pfx, sizeof(prefix) - 1);
    prefix_len = strlen(prefix);
    crash_at = crash_k; crash_torn = torn; err_at = err_k; err_no = eno; log_fd = logfd;
    counter = 0; active = 1; disk_full = 0;
    memset(tracked, 0, sizeof(tracked));
}
void verif_disarm(void) { active = 0; }
long verif_count(void) { return counter; }

static int under(const char *path) {
    if (!active || !path) return 0;
    if (path[0] == '/') return strncmp(path, prefix, prefix_len) == 0;
    char cwd[4096];
    if (!getcwd(cwd, sizeof(cwd))) return 0;
    return strncmp(cwd, prefix, prefix_len) == 0;
}
static int under_at(int dirfd, const char *path) {
    if (!active || !path) return 0;
    if (path[0] == '/' || dirfd == AT_FDCWD) return under(path);
    if (dirfd >= 0 && dirfd < MAXFD && tracked[dirfd]) return 1;
    char link[64], buf[4096];
    snprintf(link, sizeof(link), "/proc/self/fd/%d", dirfd);
    ssize_t n = readlink(link, buf, sizeof(buf) - 1);
    if (n <= 0) return 0;
    buf[n] = 0;
    return strncmp(buf, prefix, prefix_len) == 0;
}
static void logop(const char *kind, const char *what, long size) {
    if (log_fd >= 0) {
        char line[4600];
        int n = snprintf(line, sizeof(line), "%ld\t%s\t%s\t%ld\n", counter, kind, what ? what : "", size);
        REAL(write);
        if (n > 0) real_write(log_fd, line, (size_t)n);
    }
}
/* returns 0: proceed; 1: fail with errno set; never returns when crashing (unless torn write: returns 2) */
static int op(const char *kind, const char *what, long size, int is_write) {
    counter++;
    logop(kind, what, size);
    if (counter == crash_at) {
        if (crash_torn == 1 && is_write) return 2;
        _exit(137);
    }
    if (disk_full && is_write) { errno = ENOSPC; return 1; }
    if (counter == err_at) {
        /* the disk fills up inside this write: half of it is stored and the short count returned - no error yet */
        if (crash_torn == 2 && is_write && size > 1) { disk_full = 1; return 3; }
        errno = err_no; return 1;
    }
    return 0;
}
static const char *fdname(int fd, char *buf, size_t n) { snprintf(buf, n, "fd%d", fd); return buf; }
static int wflags(int flags) { return (flags & (O_WRONLY | O_RDWR | O_CREAT | O_TRUNC | O_APPEND)) != 0; }

#define OPEN_BODY(realcall, pathexpr, isunder)                              \
    mode_t mode = 0;                                                        \
    if (flags & (O_CREAT | O_TMPFILE)) { va_list ap; va_start(ap, flags); mode = va_arg(ap, mode_t); va_end(ap); } \
    int tr = (isunder) && wflags(flags);                                    \
    if (tr) { int r = op("open", pathexpr, flags, 0); if (r == 1) return -1; } \
    int fd = realcall;                                                      \
    if (tr && fd >= 0 && fd < MAXFD) tracked[fd] = 1;                       \
    else if (fd >= 0 && fd < MAXFD) tracked[fd] = 0;                        \
    return fd;

int open(const char *path, int flags, ...) { REAL(open); OPEN_BODY(real_open(path, flags, mode), path, under(path)) }
int open64(const char *path, int flags, ...) { REAL(open64); OPEN_BODY(real_open64(path, flags, mode), path, under(path)) }
int openat(int dirfd, const char *path, int flags, ...) { REAL(openat); OPEN_BODY(real_openat(dirfd, path, flags, mode), path, under_at(dirfd, path)) }
int openat64(int dirfd, const char *path, int flags, ...) { REAL(openat64); OPEN_BODY(real_openat64(dirfd, path, flags, mode), path, under_at(dirfd, path)) }
int creat(const char *path, mode_t mode) {
    REAL(creat);
    int tr = under(path);
    if (tr) { if (op("open", path, O_CREAT, 0) == 1) return -1; }
    int fd = real_creat(path, mode);
    if (fd >= 0 && fd < MAXFD) tracked[fd] = tr ? 1 : 0;
    return fd;
}
ssize_t write(int fd, const void *buf, size_t n) {
    REAL(write);
    if (active && fd >= 0 && fd < MAXFD && tracked[fd]) {
        char nm[32]; int r = op("write", fdname(fd, nm, sizeof nm), (long)n, 1);
        if (r == 1) return -1;
        if (r == 2) { real_write(fd, buf, n / 2); _exit(137); }
        if (r == 3) return real_write(fd, buf, n / 2);
    }
    return real_write(fd, buf, n);
}
ssize_t pwrite(int fd, const void *buf, size_t n, off_t off) {
    REAL(pwrite);
    if (active && fd >= 0 && fd < MAXFD && tracked[fd]) {
        char nm[32]; int r = op("write", fdname(fd, nm, sizeof nm), (long)n, 1);
        if (r == 1) return -1;
        if (r == 2) { real_pwrite(fd, buf, n / 2, off); _exit(137); }
        if (r == 3) return real_pwrite(fd, buf, n / 2, off);
    }
    return real_pwrite(fd, buf, n, off);
}
ssize_t pwrite64(int fd, const void *buf, size_t n, off64_t off) {
    REAL(pwrite64);
    if (active && fd >= 0 && fd < MAXFD && tracked[fd]) {
        char nm[32]; int r = op("write", fdname(fd, nm, sizeof nm), (long)n, 1);
        if (r == 1) return -1;
        if (r == 2) { real_pwrite64(fd, buf, n / 2, off); _exit(137); }
        if (r == 3) return real_pwrite64(fd, buf, n / 2, off);
    }
    return real_pwrite64(fd, buf, n, off);
}
ssize_t writev(int fd, const struct iovec *iov, int cnt) {
    REAL(writev);
    if (active && fd >= 0 && fd < MAXFD && tracked[fd]) {
        long tot = 0; for (int i = 0; i < cnt; i++) tot += iov[i].iov_len;
        char nm[32]; int r = op("write", fdname(fd, nm, sizeof nm), tot, 1);
        if (r == 1) return -1;
        if (r == 2) { REAL(write); if (cnt > 0) real_write(fd, iov[0].iov_base, iov[0].iov_len / 2); _exit(137); }
        if (r == 3) { REAL(write); return cnt > 0 ? real_write(fd, iov[0].iov_base, iov[0].iov_len / 2) : 0; }
    }
    return real_writev(fd, iov, cnt);
}
ssize_t sendfile(int out, int in, off_t *off, size_t n);
ssize_t sendfile(int out, int in, off_t *off, size_t n) {
    REAL(sendfile);
    if (active && out >= 0 && out < MAXFD && tracked[out]) {
        char nm[32]; int r = op("write", fdname(out, nm, sizeof nm), (long)n, 1);
        if (r == 1) return -1;
        if (r == 2) { real_sendfile(out, in, off, n > 1 ? n / 2 : n); _exit(137); }
        if (r == 3) return real_sendfile(out, in, off, n / 2);
    }
    return real_sendfile(out, in, off, n);
}
ssize_t sendfile64(int out, int in, off64_t *off, size_t n);
ssize_t sendfile64(int out, int in, off64_t *off, size_t n) {
    REAL(sendfile64);
    if (active && out >= 0 && out < MAXFD && tracked[out]) {
        char nm[32]; int r = op("write", fdname(out, nm, sizeof nm), (long)n, 1);
        if (r == 1) return -1;
        if (r == 2) { real_sendfile64(out, in, off, n > 1 ? n / 2 : n); _exit(137); }
        if (r == 3) return real_sendfile64(out, in, off, n / 2);
    }
    return real_sendfile64(out, in, off, n);
}
ssize_t copy_file_range(int in, off64_t *oin, int out, off64_t *oout, size_t n, unsigned int fl) {
    REAL(copy_file_range);
    if (active && out >= 0 && out < MAXFD && tracked[out]) {
        char nm[32]; int r = op("write", fdname(out, nm, sizeof nm), (long)n, 1);
        if (r == 1) return -1;
        if (r == 2) { real_copy_file_range(in, oin, out, oout, n > 1 ? n / 2 : n, fl); _exit(137); }
        if (r == 3) return real_copy_file_range(in, oin, out, oout, n / 2, fl);
    }
    return real_copy_file_range(in, oin, out, oout, n, fl);
}
int close(int fd) {
    REAL(close);
    if (active && fd >= 0 && fd < MAXFD && tracked[fd]) {
        char nm[32]; int r = op("close", fdname(fd, nm, sizeof nm), 0, 0);
        tracked[fd] = 0;
        if (r == 1) { real_close(fd); return -1; }
    }
    return real_close(fd);
}
int fsync(int fd) {
    REAL(fsync);
    if (active && fd >= 0 && fd < MAXFD && tracked[fd]) { char nm[32]; if (op("fsync", fdname(fd, nm, sizeof nm), 0, 0) == 1) return -1; }
    return real_fsync(fd);
}
int fdatasync(int fd) {
    REAL(fdatasync);
    if (active && fd >= 0 && fd < MAXFD && tracked[fd]) { char nm[32]; if (op("fsync", fdname(fd, nm, sizeof nm), 0, 0) == 1) return -1; }
    return real_fdatasync(fd);
}
int ftruncate(int fd, off_t len) {
    REAL(ftruncate);
    if (active && fd >= 0 && fd < MAXFD && tracked[fd]) { char nm[32]; if (op("truncate", fdname(fd, nm, sizeof nm), (long)len, 0) == 1) return -1; }
    return real_ftruncate(fd, len);
}
int ftruncate64(int fd, off64_t len) {
    REAL(ftruncate64);
    if (active && fd >= 0 && fd < MAXFD && tracked[fd]) { char nm[32]; if (op("truncate", fdname(fd, nm, sizeof nm), (long)len, 0) == 1) return -1; }
    return real_ftruncate64(fd, len);
}
int truncate(const char *path, off_t len) {
    REAL(truncate);
    if (under(path)) { if (op("truncate", path, (long)len, 0) == 1) return -1; }
    return real_truncate(path, len);
}
int rename(const char *a, const char *b) {
    REAL(rename);
    if (under(a) || under(b)) { char w[4400]; snprintf(w, sizeof w, "%s -> %s", a, b); if (op("rename", w, 0, 0) == 1) return -1; }
    return real_rename(a, b);
}
int renameat(int ad, const char *a, int bd, const char *b) {
    REAL(renameat);
    if (under_at(ad, a) || under_at(bd, b)) { char w[4400]; snprintf(w, sizeof w, "%s -> %s", a, b); if (op("rename", w, 0, 0) == 1) return -1; }
    return real_renameat(ad, a, bd, b);
}
int renameat2(int ad, const char *a, int bd, const char *b, unsigned int fl) {
    REAL(renameat2);
    if (under_at(ad, a) || under_at(bd, b)) { char w[4400]; snprintf(w, sizeof w, "%s -> %s", a, b); if (op("rename", w, 0, 0) == 1) return -1; }
    return real_renameat2(ad, a, bd, b, fl);
}
int link(const char *a, const char *b) {
    REAL(link);
    if (under(a) || under(b)) { char w[4400]; snprintf(w, sizeof w, "%s -> %s", a, b); if (op("link", w, 0, 0) == 1) return -1; }
    return real_link(a, b);
}
int symlink(const char *a, const char *b) {
    REAL(symlink);
    if (under(b)) { if (op("symlink", b, 0, 0) == 1) return -1; }
    return real_symlink(a, b);
}
int unlink(const char *p) {
    REAL(unlink);
    if (under(p)) { if (op("unlink", p, 0, 0) == 1) return -1; }
    return real_unlink(p);
}
int unlinkat(int d, const char *p, int fl) {
    REAL(unlinkat);
    if (under_at(d, p)) { if (op("unlink", p, 0, 0) == 1) return -1; }
    return real_unlinkat(d, p, fl);
}
int mkdir(const char *p, mode_t m) {
    REAL(mkdir);
    if (under(p)) { if (op("mkdir", p, 0, 0) == 1) return -1; }
    return real_mkdir(p, m);
}
int mkdirat(int d, const char *p, mode_t m) {
    REAL(mkdirat);
    if (under_at(d, p)) { if (op("mkdir", p, 0, 0) == 1) return -1; }
    return real_mkdirat(d, p, m);
}
int rmdir(const char *p) {
    REAL(rmdir);
    if (under(p)) { if (op("rmdir", p, 0, 0) == 1) return -1; }
    return real_rmdir(p);
}
