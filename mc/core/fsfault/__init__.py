"""Builds the LD_PRELOAD shim (gcc, from shim.c next to this file) into /verif/.cache when stale."""
import hashlib
import os
import subprocess

HERE = os.path.dirname(os.path.abspath(__file__))
VERIF = os.path.dirname(os.path.dirname(os.path.dirname(HERE)))
CACHE = os.path.join(VERIF, ".cache")


def ensure_shim():
    os.makedirs(CACHE, exist_ok=True)
    src = os.path.join(HERE, "shim.c")
    so = os.path.join(CACHE, "fsshim.so")
    stamp = os.path.join(CACHE, "fsshim.sha")
    h = hashlib.sha256(open(src, "rb").read()).hexdigest()
    if not (os.path.exists(so) and os.path.exists(stamp) and open(stamp).read() == h):
        env = dict(os.environ)
        env.pop("LD_PRELOAD", None)
        tmp = so + ".%d.tmp" % os.getpid()
        subprocess.run(["gcc", "-O1", "-shared", "-fPIC", "-o", tmp, src, "-ldl"], check=True, env=env)
        os.replace(tmp, so)
        with open(stamp, "w") as f:
            f.write(h)
    return so
