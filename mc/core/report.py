"""Evidence files, replay files, known-findings matching, VIOLATION / KNOWN-FINDING lines."""
import hashlib
import json
import os
import subprocess
import sys
import time

VERIF = os.path.dirname(os.path.dirname(os.path.dirname(os.path.abspath(__file__))))
# (VERIF_OUT: scratch output root for runs against another tree than /repo, e.g. tools/regress_seeds.sh - never used by the
# registered commands, whose evidence belongs to /verif)
_OUT = os.environ.get("VERIF_OUT") or VERIF
EVIDENCE_DIR = os.path.join(_OUT, "evidence")
REPLAY_DIR = os.path.join(_OUT, "replays")
FINDINGS = os.path.join(VERIF, "known_findings.json")
SCHEMA = "/root/.vp/EVIDENCE.schema.json"


def jdefault(o):
    if isinstance(o, (set, frozenset)):
        return sorted(o, key=repr)
    if isinstance(o, bytes):
        return o.decode("latin-1")
    if isinstance(o, tuple):
        return list(o)
    return repr(o)


def load_findings(prop_id):
    """-> (known: {signature: entry}, fixed: {signature: entry})"""
    try:
        with open(FINDINGS) as f:
            data = json.load(f)
    except FileNotFoundError:
        return {}, {}
    known, fixed = {}, {}
    for e in data.get("findings", []):
        if e.get("property") != prop_id:
            continue
        (known if e.get("status") == "known" else fixed)[e["signature"]] = e
    return known, fixed


def write_replay(prop_id, record):
    d = os.path.join(REPLAY_DIR, prop_id)
    os.makedirs(d, exist_ok=True)
    blob = json.dumps(record, sort_keys=True, default=jdefault, ensure_ascii=True, indent=1)
    h = hashlib.sha256(blob.encode()).hexdigest()[:16]
    path = os.path.join(d, h + ".json")
    with open(path, "w") as f:
        f.write(blob)
    return path


def replay_in_fresh_process(prop_id, path, timeout=300, want_sig=None):
    """Re-execute a replay file in a fresh interpreter; returns parsed outcome dict or {'error':..}."""
    env = dict(os.environ)
    env["VERIF_NO_REEXEC"] = "1"
    try:
        p = subprocess.run([sys.executable, os.path.join(VERIF, "check"), prop_id, "--replay", path, "--json"],
                           stdout=subprocess.PIPE, stderr=subprocess.PIPE, text=True, timeout=timeout, env=env,
                           cwd=VERIF)
    except subprocess.TimeoutExpired:
        # (a loop in C code never lets the watchdog inside the replay raise: the replay not coming back reproduces a hang,
        # under whatever name the property gives its hang signature)
        return {"violated": True, "sig": want_sig if (want_sig or "").startswith("hang") else "hang", "note": "replay timed out"}
    for line in reversed(p.stdout.splitlines()):
        if line.startswith("REPLAY-OUTCOME "):
            return json.loads(line[len("REPLAY-OUTCOME "):])
    return {"error": "no outcome line", "stdout": p.stdout[-2000:], "stderr": p.stderr[-2000:], "rc": p.returncode}


class Verdict:
    """Collects violations by signature and turns them into output lines + exit status."""

    def __init__(self, prop_id, gate=True):
        self.prop_id = prop_id
        self.known, self.fixed = load_findings(prop_id)
        self.by_sig = {}  # sig -> {"count": n, "examples": [records]}
        self.gate = gate
        self.lines = []
        self.unstable = []
        self.errors = []  # harness errors -> exit 2

    def add(self, sig, record, count=1):
        e = self.by_sig.setdefault(sig, {"count": 0, "examples": []})
        e["count"] += count
        if record is not None and len(e["examples"]) >= 3:
            # keep, besides the first three, the three examples with the largest index: when an outcome depends on what the
            # worker process did before (state carried from case to case), a later, self-contained case may still replay
            late = e.setdefault("late", [])
            late.append(record)
            late.sort(key=lambda r: r.get("idx", 0))
            del late[:-3]
        if record is not None and len(e["examples"]) < 3:
            e["examples"].append(record)

    def finish(self, max_gated=12):
        """Write replays, run determinism gate, print lines.  Returns exit code."""
        n_new = 0
        gated = 0
        seen_known = set()
        for sig in sorted(self.by_sig, key=lambda s: (s in self.known, s)):
            e = self.by_sig[sig]
            ksig = self._match_known(sig)
            if ksig is not None:
                if ksig not in seen_known:
                    seen_known.add(ksig)
                    print("KNOWN-FINDING: property=%s %s [signature %s; %d case(s) this run]" % (
                        self.prop_id, self.known[ksig].get("what", ""), ksig,
                        sum(v["count"] for s, v in self.by_sig.items() if self._match_known(s) == ksig)))
                continue
            cands = sorted(e["examples"], key=lambda r: r.get("idx", 0))[:1] + list(reversed(e.get("late", []))) if e["examples"] else [{"sig": sig}]
            stable = None
            first_fail = None
            for ci, ex in enumerate(cands[:3]):
                ex = dict(ex)
                ex["property"] = self.prop_id
                ex["sig"] = sig
                path = write_replay(self.prop_id, ex)
                if not (self.gate and gated < max_gated and "case" in ex):
                    stable = (ex, path)
                    break
                gated += 1
                o1 = replay_in_fresh_process(self.prop_id, path, want_sig=sig)
                o2 = replay_in_fresh_process(self.prop_id, path, want_sig=sig)
                ok1 = o1.get("violated") and o1.get("sig") == sig
                ok2 = o2.get("violated") and o2.get("sig") == sig
                if ok1 and ok2:
                    stable = (ex, path)
                    break
                if first_fail is None:
                    first_fail = (path, o1, o2)
            if stable is None:
                path, o1, o2 = first_fail
                self.unstable.append((sig, path, o1, o2))
                print("UNSTABLE property=%s sig=%s replay=%s first=%s second=%s" % (
                    self.prop_id, sig, path, json.dumps(o1, default=jdefault)[:300],
                    json.dumps(o2, default=jdefault)[:300]))
                continue
            ex, path = stable
            n_new += 1
            print("VIOLATION property=%s replay=%s  # %s (%d case(s)) %s" % (
                self.prop_id, path, sig, e["count"], str(ex.get("msg", ""))[:200].replace("\n", " ")))
        self.n_new = n_new
        self.n_known = len(seen_known)
        sys.stdout.flush()
        if self.errors:
            for m in self.errors:
                print("HARNESS-ERROR property=%s %s" % (self.prop_id, m))
            # a confirmed, replayable violation stands even if the run was cut short afterwards (fail-fast makes the
            # coverage statistics vacuous); without one, a harness error is exit 2
            return 1 if n_new else 2
        if n_new:
            return 1
        if self.unstable:
            return 2
        return 0

    def _match_known(self, sig):
        if sig in self.known:
            return sig
        for k in self.known:
            if k.endswith("*") and sig.startswith(k[:-1]):
                return k
        return None


def write_evidence(prop_id, tier, seed, level, coverage, wall_s, violations, assumptions):
    os.makedirs(EVIDENCE_DIR, exist_ok=True)
    doc = {
        "property_id": prop_id,
        "tier": tier,
        "seed": int(seed),
        "level": level,
        "coverage": coverage,
        "assumptions": list(assumptions),
        "wall_s": round(float(wall_s), 3),
        "violations": int(violations),
        "written_at": time.strftime("%Y-%m-%dT%H:%M:%SZ", time.gmtime()),
    }
    path = os.path.join(EVIDENCE_DIR, prop_id + ".json")
    tmp = path + ".tmp"
    with open(tmp, "w") as f:
        json.dump(doc, f, indent=1, default=jdefault, ensure_ascii=True)
    os.replace(tmp, path)
    return path
