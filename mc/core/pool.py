"""Forked worker pool with per-case watchdogs.

* The parent imports everything once, then forks N workers (never a fork per case).
* Work items ("payloads", dicts) are handed out one at a time over pipes; results come back pickled.
* Inside a worker, `ctx.begin(idx)` marks the case being executed (shared memory) and arms a *soft*
  watchdog (CaseTimeout raised inside the case: the handler records outcome "hang").
* If a case does not even react to the soft alarm (a loop in C code, a blocked syscall) the parent kills
  the worker after `hard_timeout`, records the case as hang (or "crash" if the worker died by itself),
  respawns a worker and re-queues the payload with that case index added to payload["skip"].
* Both watchdogs count the CPU time of the worker (ITIMER_PROF; utime+stime from /proc in the parent), not wall-clock
  time: what the code under test does is the same on a busy machine, how long it waits for a core is not - with
  48 busy processes on the 16 cores a 5 s case took 18 s of wall-clock time and an explorer step ran into a 30 s wall
  watchdog.  A case that blocks without using the CPU is caught by a wall-clock backstop of WALL_FACTOR x the limit.
* RLIMIT_AS makes runaway allocations a MemoryError inside the case rather than a dead harness.
"""
import os
import pickle
import resource
import select
import signal
import struct
import sys
import time
import traceback
import multiprocessing.sharedctypes as sct

NWORKERS = int(os.environ.get("VERIF_WORKERS", "16"))
WALL_FACTOR = 6.0
_CLK_TCK = os.sysconf("SC_CLK_TCK")


class CaseTimeout(BaseException):
    """BaseException so that catch-all `except Exception` in the code under test cannot swallow it."""


class WorkerCtx:
    def __init__(self, slot, shared, soft_timeout):
        self.slot = slot
        self.shared = shared
        self.soft_timeout = soft_timeout

    def begin(self, idx, soft=None):
        # (the parent reads the index first: it must be the last thing written)
        t = os.times()
        self.shared[3 * self.slot + 2] = int((t.user + t.system) * 1000)
        self.shared[3 * self.slot + 1] = int(time.time() * 1000)
        self.shared[3 * self.slot] = idx
        arm(soft or self.soft_timeout)

    def end(self):
        disarm()
        self.shared[3 * self.slot] = -1


def _alarm(signum, frame):
    disarm()  # (the other timer must not fire while the case is being unwound)
    raise CaseTimeout()


def install_watchdog():
    signal.signal(signal.SIGPROF, _alarm)
    signal.signal(signal.SIGALRM, _alarm)


def arm(soft):
    """soft seconds of CPU time of this process, or WALL_FACTOR x soft seconds of wall-clock time, whichever comes first"""
    signal.setitimer(signal.ITIMER_PROF, soft)
    signal.setitimer(signal.ITIMER_REAL, soft * WALL_FACTOR)


def disarm():
    signal.setitimer(signal.ITIMER_PROF, 0)
    signal.setitimer(signal.ITIMER_REAL, 0)


def _cpu_ms(pid):
    """utime + stime of a process in ms (None when it is gone)"""
    try:
        with open("/proc/%d/stat" % pid) as f:
            rest = f.read().rsplit(")", 1)[1].split()
        return (int(rest[11]) + int(rest[12])) * 1000 // _CLK_TCK
    except (OSError, ValueError, IndexError):
        return None


def _send(fd, obj):
    data = pickle.dumps(obj, protocol=pickle.HIGHEST_PROTOCOL)
    data = struct.pack("<Q", len(data)) + data
    view = memoryview(data)
    while view:
        n = os.write(fd, view)
        view = view[n:]


def _recv_exact(fd, n):
    chunks = []
    while n:
        b = os.read(fd, min(n, 1 << 20))
        if not b:
            raise EOFError
        chunks.append(b)
        n -= len(b)
    return b"".join(chunks)


def _recv(fd):
    (n,) = struct.unpack("<Q", _recv_exact(fd, 8))
    return pickle.loads(_recv_exact(fd, n))


class Worker:
    __slots__ = ("pid", "slot", "to_w", "from_w", "task", "t0")


class WorkerPool:
    def __init__(self, handler, nworkers=None, soft_timeout=20.0, hard_timeout=45.0, mem_gb=4, init=None):
        self.handler = handler
        self.n = nworkers or NWORKERS
        self.soft = soft_timeout
        self.hard = hard_timeout
        self.mem = int(mem_gb * (1 << 30))
        self.init = init
        self.shared = sct.RawArray("q", 3 * self.n)  # per worker: case index (-1: none), wall ms and CPU ms at its start
        for i in range(self.n):
            self.shared[3 * i] = -1
        self.workers = {}
        self.events = []  # (payload_index, case_idx, kind)
        self.started = False

    # ---------------------------------------------------------------- worker side
    def _worker_main(self, slot, rfd, wfd):
        try:  # die with the parent (a killed check must not leave spinning workers behind)
            import ctypes
            ctypes.CDLL("libc.so.6", use_errno=True).prctl(1, signal.SIGKILL, 0, 0, 0)
            if os.getppid() == 1:
                os._exit(0)
        except Exception:
            pass
        install_watchdog()
        signal.signal(signal.SIGINT, signal.SIG_IGN)
        if self.mem:
            try:
                resource.setrlimit(resource.RLIMIT_AS, (self.mem, self.mem))
            except (ValueError, OSError):
                pass
        ctx = WorkerCtx(slot, self.shared, self.soft)
        if self.init:
            self.init(ctx)
        while True:
            try:
                msg = _recv(rfd)
            except EOFError:
                os._exit(0)
            if msg is None:
                os._exit(0)
            try:
                res = ("ok", self.handler(msg, ctx))
            except CaseTimeout:
                res = ("err", "CaseTimeout escaped handler\n" + traceback.format_exc())
            except BaseException:
                res = ("err", traceback.format_exc())
            finally:
                ctx.end()
            try:
                _send(wfd, res)
            except BaseException:
                os._exit(3)

    def _spawn(self, slot):
        p2c_r, p2c_w = os.pipe()
        c2p_r, c2p_w = os.pipe()
        sys.stdout.flush()
        sys.stderr.flush()
        pid = os.fork()
        if pid == 0:
            try:
                os.close(p2c_w)
                os.close(c2p_r)
                for w in self.workers.values():
                    for fd in (w.to_w, w.from_w):
                        try:
                            os.close(fd)
                        except OSError:
                            pass
                self._worker_main(slot, p2c_r, c2p_w)
            finally:
                os._exit(4)
        os.close(p2c_r)
        os.close(c2p_w)
        w = Worker()
        w.pid, w.slot, w.to_w, w.from_w, w.task, w.t0 = pid, slot, p2c_w, c2p_r, None, 0
        self.shared[3 * slot] = -1
        self.workers[slot] = w
        return w

    def start(self):
        if not self.started:
            for s in range(self.n):
                self._spawn(s)
            self.started = True

    def _reap(self, w, kill=True):
        if kill:
            try:
                os.kill(w.pid, signal.SIGKILL)
            except OSError:
                pass
        try:
            os.waitpid(w.pid, 0)
        except OSError:
            pass
        for fd in (w.to_w, w.from_w):
            try:
                os.close(fd)
            except OSError:
                pass
        del self.workers[w.slot]

    # ---------------------------------------------------------------- parent side
    def map(self, payloads, on_result=None, deadline=None, should_stop=None):
        """Run handler on each payload; returns list of results (payload order).
        A result may be replaced by ("fatal", text) if the worker failed outside a marked case."""
        self.start()
        payloads = list(payloads)
        results = [None] * len(payloads)
        queue = list(range(len(payloads) - 1, -1, -1))
        pending = 0
        idle = [w for w in self.workers.values() if w.task is None]
        self.deadline_hit = False
        self._abort_at = None
        while queue or pending:
            if queue and ((deadline is not None and time.time() > deadline) or (should_stop is not None and should_stop())):
                self.deadline_hit = True
                del queue[:]  # undone payloads keep result None
                if not hasattr(self, "_abort_at") or self._abort_at is None:
                    self._abort_at = time.time() + 10.0
                continue
            if self.deadline_hit and pending and getattr(self, "_abort_at", None) and time.time() > self._abort_at:
                # grace period over: do not wait for chunks that crawl
                for w in list(self.workers.values()):
                    if w.task is not None:
                        self._reap(w, kill=True)
                        self._spawn(w.slot)
                pending = 0
                break
            while queue and idle:
                w = idle.pop()
                i = queue.pop()
                w.task, w.t0 = i, time.time()
                try:
                    _send(w.to_w, payloads[i])
                    pending += 1
                except OSError:
                    queue.append(i)
                    self._reap(w)
                    idle.append(self._spawn(w.slot))
            fds = {w.from_w: w for w in self.workers.values() if w.task is not None}
            ready, _, _ = select.select(list(fds), [], [], 1.0)
            for fd in ready:
                w = fds[fd]
                try:
                    kind, res = _recv(fd)
                except (EOFError, OSError, pickle.UnpicklingError):
                    # worker died
                    self._worker_lost(w, payloads, results, queue, "crash")
                    pending -= 1
                    idle.append(self._spawn(w.slot))
                    continue
                i = w.task
                w.task = None
                pending -= 1
                idle.append(w)
                if kind == "err":
                    results[i] = ("fatal", res)
                else:
                    results[i] = res
                    if on_result:
                        on_result(i, res)
            now_ms = int(time.time() * 1000)
            if now_ms - getattr(self, "_last_hard_check", 0) < 1000:
                continue
            self._last_hard_check = now_ms
            for w in list(self.workers.values()):
                if w.task is None:
                    continue
                cidx, ts, cpu0 = self.shared[3 * w.slot], self.shared[3 * w.slot + 1], self.shared[3 * w.slot + 2]
                if cidx < 0:
                    continue
                cpu = _cpu_ms(w.pid)
                if (cpu is not None and cpu - cpu0 > self.hard * 1000) or now_ms - ts > self.hard * 1000 * WALL_FACTOR:
                    if self.shared[3 * w.slot] != cidx:
                        continue  # (it moved on while we were looking)
                    self._worker_lost(w, payloads, results, queue, "hang")
                    pending -= 1
                    idle.append(self._spawn(w.slot))
        return results

    def _worker_lost(self, w, payloads, results, queue, kind):
        i = w.task
        cidx = self.shared[3 * w.slot]
        self._reap(w, kill=True)
        if cidx >= 0:
            self.events.append((i, int(cidx), kind))
            p = dict(payloads[i])
            p["skip"] = list(p.get("skip", [])) + [int(cidx)]
            payloads[i] = p
            if len(p["skip"]) > 50:
                results[i] = ("fatal", "more than 50 hard hangs/crashes in one payload")
            else:
                queue.append(i)
                return
        else:
            results[i] = ("fatal", "worker %s outside a marked case (payload %r)" % (kind, str(payloads[i])[:200]))

    def close(self):
        for w in list(self.workers.values()):
            try:
                _send(w.to_w, None)
            except OSError:
                pass
        for w in list(self.workers.values()):
            self._reap(w, kill=True)
        self.started = False
