"""Driver-controlled gevent hub.

`CHub` replaces gevent's thread-local Hub.  Its loop is a pure-Python object: `run_callback` appends to a
FIFO, timers go into a list keyed by virtual time, nothing ever polls the OS.  Whenever a greenlet blocks
or finishes, control lands in `CHub.run`, which hands control back to the *driver* (the main greenlet).
The driver has three powers only:
    start(fn, *args)   create a real gevent Greenlet and run it to its first blocking point
    step()             pop the OLDEST pending callback and let the hub execute it (gevent's own order:
                       callbacks are never reordered)
    fire_timer(t)      advance the virtual clock to a pending timer and enqueue its callback
Unhandled greenlet errors (Hub.handle_error) are captured in `hub.errors` instead of being printed.
"""
import collections

import gevent
import gevent.hub
import gevent._hub_local as _hub_local
import greenlet as _greenlet


class FakeCallback:
    __slots__ = ("callback", "args", "seq")

    def __init__(self, callback, args, seq):
        self.callback = callback
        self.args = args
        self.seq = seq

    def stop(self):
        self.callback = None
        self.args = None

    close = stop

    def __bool__(self):
        return self.args is not None

    @property
    def pending(self):
        return self.callback is not None


class FakeTimer:
    def __init__(self, loop, after, repeat):
        self.loop = loop
        self.after = after
        self.repeat = repeat
        self.callback = None
        self.args = None
        self.at = None
        self.seq = None
        self.active = False

    def start(self, callback, *args, **kw):
        self.callback = callback
        self.args = args
        self.at = self.loop.now() + max(self.after, 0)
        self.loop._tseq += 1
        self.seq = self.loop._tseq
        self.active = True
        if self not in self.loop.timers:
            self.loop.timers.append(self)

    def again(self, callback, *args, **kw):
        self.start(callback, *args)

    def stop(self):
        self.active = False
        self.callback = None
        self.args = None
        if self in self.loop.timers:
            self.loop.timers.remove(self)

    def close(self):
        self.stop()

    @property
    def pending(self):
        return False


class FakeLoop:
    error_handler = None
    approx_timer_resolution = 0.00001

    def __init__(self):
        self.callbacks = collections.deque()
        self.timers = []
        self._now = 1000.0
        self._seq = 0
        self._tseq = 0
        self.ncallbacks = 0

    def run_callback(self, fn, *args):
        self._seq += 1
        cb = FakeCallback(fn, args, self._seq)
        self.callbacks.append(cb)
        return cb

    run_callback_threadsafe = run_callback

    def now(self):
        return self._now

    def update_now(self):
        pass

    update = update_now

    def timer(self, after, repeat=0.0, ref=True, priority=None):
        return FakeTimer(self, after, repeat)

    def destroy(self):
        self.callbacks.clear()
        self.timers[:] = []

    def io(self, *a, **kw):
        raise RuntimeError("real I/O under the controlled hub")

    def run(self, *a, **kw):
        raise RuntimeError("FakeLoop.run must never be called (CHub.run drives the callbacks)")

    def __getattr__(self, name):
        raise AttributeError("FakeLoop has no %r (real event-loop feature used under the controlled hub)" % name)


class CHub(gevent.hub.Hub):
    def __init__(self):
        super().__init__(loop=FakeLoop())
        self.cmd = None
        self.errors = []
        self.driver = _greenlet.getcurrent()

    def handle_error(self, context, type, value, tb):
        if issubclass(type, (gevent.GreenletExit,)):
            return
        self.errors.append((repr(context)[:120], type.__name__, str(value)[:300]))

    def run(self, *ignored):
        while True:
            self.parent.switch(("hub-idle",))
            cmd, self.cmd = self.cmd, None
            if cmd is None:
                continue
            if cmd[0] == "exit":
                return
            if cmd[0] == "runcb":
                cb = cmd[1]
                fn, args = cb.callback, cb.args
                cb.stop()
                if fn is not None:
                    try:
                        fn(*args)
                    except BaseException as e:  # gevent routes callback errors to handle_error
                        self.handle_error(fn, type(e), e, e.__traceback__)

    # ---------------------------------------------------------------- driver API
    def install(self):
        _hub_local.set_hub(self)
        return self

    def start(self, fn, *args, **kw):
        g = gevent.Greenlet(fn, *args, **kw)
        g.switch()
        return g

    def pending(self):
        return [cb for cb in self.loop.callbacks if cb.callback is not None]

    def step(self):
        """Run the oldest pending callback.  False if none."""
        cbs = self.loop.callbacks
        while cbs:
            cb = cbs.popleft()
            if cb.callback is None:
                continue
            self.loop.ncallbacks += 1
            self.cmd = ("runcb", cb)
            _greenlet.greenlet.switch(self)
            return True
        return False

    def drain(self, limit=100000):
        n = 0
        while self.step():
            n += 1
            if n > limit:
                raise RuntimeError("callback drain exceeded %d steps (livelock)" % limit)
        return n

    def next_timer(self):
        ts = [t for t in self.loop.timers if t.active]
        if not ts:
            return None
        return min(ts, key=lambda t: (t.at, t.seq))

    def fire_timer(self, t=None):
        t = t or self.next_timer()
        if t is None:
            return False
        self.loop._now = max(self.loop._now, t.at)
        fn, args = t.callback, t.args
        t.stop()
        self.loop.run_callback(fn, *args)
        return True

    def shutdown(self, greenlets=()):
        """Tear the world down: kill the given greenlets (their `finally` blocks run), drain, end the hub greenlet."""
        try:
            for g in greenlets:
                if not g.dead:
                    g.kill(block=False)
            self.drain(limit=10000)
        except BaseException:
            pass
        self.loop.callbacks.clear()
        self.loop.timers[:] = []
        if not self.dead and self.gr_frame is not None:
            self.cmd = ("exit",)
            try:
                _greenlet.greenlet.switch(self)
            except BaseException:
                pass


def fresh_hub():
    old = _hub_local.get_hub_if_exists() if hasattr(_hub_local, "get_hub_if_exists") else None
    if isinstance(old, CHub):
        old.shutdown()
    h = CHub()
    h.install()
    return h
