"""Deterministic, index-addressable finite spaces (no randomness anywhere).

Every space has __len__ and __getitem__(i) -> case (JSON-able python value).  Cases are ordered
smallest/simplest first so the first counterexample is also the smallest.
"""


class Space:
    name = "space"

    def __len__(self):
        raise NotImplementedError

    def __getitem__(self, i):
        raise NotImplementedError

    def __iter__(self):
        for i in range(len(self)):
            yield self[i]


class Items(Space):
    def __init__(self, items, name="items"):
        self.items = list(items)
        self.name = name

    def __len__(self):
        return len(self.items)

    def __getitem__(self, i):
        return self.items[i]


class Seqs(Space):
    """All sequences over `alphabet` of length minlen..maxlen, shortest first; case = tuple of symbols."""

    def __init__(self, alphabet, maxlen, minlen=0, name="seqs"):
        self.a = list(alphabet)
        self.k = len(self.a)
        self.minlen, self.maxlen = minlen, maxlen
        self.offsets = []
        tot = 0
        for n in range(minlen, maxlen + 1):
            self.offsets.append((tot, n))
            tot += self.k ** n
        self.total = tot
        self.name = name

    def __len__(self):
        return self.total

    def __getitem__(self, i):
        if i < 0 or i >= self.total:
            raise IndexError(i)
        for off, n in reversed(self.offsets):
            if i >= off:
                i -= off
                out = []
                for _ in range(n):
                    i, r = divmod(i, self.k)
                    out.append(self.a[r])
                out.reverse()
                return tuple(out)
        raise IndexError(i)


class Product(Space):
    """Cartesian product of spaces/lists; last factor varies fastest; case = tuple."""

    def __init__(self, *factors, name="product"):
        self.f = [f if isinstance(f, Space) else Items(f) for f in factors]
        self.sizes = [len(f) for f in self.f]
        n = 1
        for s in self.sizes:
            n *= s
        self.total = n
        self.name = name

    def __len__(self):
        return self.total

    def __getitem__(self, i):
        if i < 0 or i >= self.total:
            raise IndexError(i)
        out = []
        for f, s in zip(reversed(self.f), reversed(self.sizes)):
            i, r = divmod(i, s)
            out.append(f[r])
        out.reverse()
        return tuple(out)


class Concat(Space):
    """Disjoint union, in order.  case = (family_name, inner_case)."""

    def __init__(self, *spaces, name="concat"):
        self.s = list(spaces)
        self.offs = []
        tot = 0
        for s in self.s:
            self.offs.append(tot)
            tot += len(s)
        self.total = tot
        self.name = name

    def __len__(self):
        return self.total

    def __getitem__(self, i):
        if i < 0 or i >= self.total:
            raise IndexError(i)
        import bisect
        k = bisect.bisect_right(self.offs, i) - 1
        return (self.s[k].name, self.s[k][i - self.offs[k]])

    def family_sizes(self):
        out = {}
        for s in self.s:
            out[s.name] = out.get(s.name, 0) + len(s)
        return out


class Mapped(Space):
    def __init__(self, space, fn, name=None):
        self.space, self.fn = space, fn
        self.name = name or space.name

    def __len__(self):
        return len(self.space)

    def __getitem__(self, i):
        return self.fn(self.space[i])
