"""Rebuild mwlib's compiled extensions from /repo's *working tree*.

mwlib is an editable install of /repo/src, so Python sources need no build.  The five compiled
modules do: `_uscan.cc` (re2c output, tracked; re2c is not installed) and four `.pyx` files.
`make build`/`setup.py` shell out to re2c and a `cython` CLI, so we compile through the Cython API
in a throw-away directory under $TMPDIR (sources are *copied* there so that the tracked `.c` files in
/repo are never rewritten), and copy only the resulting `.so` over the git-ignored ones in /repo/src.

A stamp (/verif/.cache/build_stamp.json) maps each module to (sha256 of its source, sha256 of the
installed .so).  A module is rebuilt iff its source hash or the .so hash differs from the stamp.
Exit status 2 (BuildError) = the tree does not compile: a broken build, not a verdict.
"""
import hashlib
import json
import os
import shutil
import subprocess
import sys
import tempfile
import fcntl

REPO = os.environ.get("VERIF_REPO", "/repo")
SRC = os.path.join(REPO, "src")
VERIF = os.path.dirname(os.path.dirname(os.path.dirname(os.path.abspath(__file__))))
CACHE = os.path.join(os.environ.get("VERIF_OUT") or VERIF, ".cache")
STAMP = os.path.join(CACHE, "build_stamp.json")
PY = "/venv/bin/python"
SO_SUFFIX = ".cpython-312-x86_64-linux-gnu.so"

MODULES = {
    "mwlib.parser.token._uscan": "mwlib/parser/token/_uscan.cc",
    "mwlib.parser.templ.evaluate": "mwlib/parser/templ/evaluate.pyx",
    "mwlib.parser.templ.nodes": "mwlib/parser/templ/nodes.pyx",
    "mwlib.parser.templ.node": "mwlib/parser/templ/node.pyx",
    "mwlib.parser.refine._core": "mwlib/parser/refine/_core.pyx",
}


class BuildError(Exception):
    pass


def _sha(path):
    try:
        with open(path, "rb") as f:
            return hashlib.sha256(f.read()).hexdigest()
    except FileNotFoundError:
        return None


def _so_path(mod):
    rel = MODULES[mod]
    return os.path.join(SRC, os.path.splitext(rel)[0] + SO_SUFFIX)


def _load_stamp():
    try:
        with open(STAMP) as f:
            return json.load(f)
    except (OSError, ValueError):
        return {}


SETUP_PY = r"""
import sys
from setuptools import Extension, setup
from Cython.Build import cythonize
mods = %(mods)r
exts = []
for name, src in mods:
    if src.endswith(".pyx"):
        exts.append(Extension(name, sources=[src], extra_compile_args=["-Wno-unreachable-code-fallthrough", "-w"]))
    else:
        exts.append(Extension(name, sources=[src], extra_compile_args=["-w"]))
setup(name="mwlibext", version="0", script_args=["build_ext", "--build-lib", "out", "--build-temp", "tmp", "-j", "5"],
      ext_modules=cythonize(exts, compiler_directives={"language_level": 3}, quiet=True))
"""


def ensure_built(verbose=False, force=False):
    """Rebuild whatever is stale.  Returns list of rebuilt modules."""
    os.makedirs(CACHE, exist_ok=True)
    lockf = open(os.path.join(CACHE, "build.lock"), "w")
    fcntl.flock(lockf, fcntl.LOCK_EX)
    try:
        stamp = _load_stamp()
        stale = []
        for mod, rel in MODULES.items():
            s = _sha(os.path.join(SRC, rel))
            if s is None:
                raise BuildError("source missing: %s" % rel)
            so = _sha(_so_path(mod))
            ent = stamp.get(mod)
            if force or not ent or ent.get("src") != s or ent.get("so") != so or so is None:
                stale.append(mod)
        if not stale:
            return []
        tmp = tempfile.mkdtemp(prefix="mwlib-verif-build-")
        try:
            mods = []
            for mod in stale:
                rel = MODULES[mod]
                dst = os.path.join(tmp, "src", rel)
                os.makedirs(os.path.dirname(dst), exist_ok=True)
                shutil.copy(os.path.join(SRC, rel), dst)
                mods.append((mod, os.path.join("src", rel)))
            # package markers so that cython computes the right qualified module names
            for root, dirs, files in os.walk(os.path.join(tmp, "src")):
                if root != os.path.join(tmp, "src"):
                    open(os.path.join(root, "__init__.py"), "a").close()
            with open(os.path.join(tmp, "setup.py"), "w") as f:
                f.write(SETUP_PY % {"mods": mods})
            env = dict(os.environ)
            env.pop("LD_PRELOAD", None)
            p = subprocess.run([PY, "setup.py"], cwd=tmp, env=env, stdout=subprocess.PIPE,
                               stderr=subprocess.STDOUT, text=True)
            if p.returncode != 0:
                raise BuildError("extension build failed:\n" + p.stdout[-4000:])
            for mod in stale:
                rel = MODULES[mod]
                built = os.path.join(tmp, "out", *mod.split(".")) + SO_SUFFIX
                if not os.path.exists(built):
                    raise BuildError("build produced no %s\n%s" % (built, p.stdout[-2000:]))
                target = _so_path(mod)
                tmp_target = target + ".verif-new"
                shutil.copy(built, tmp_target)
                os.replace(tmp_target, target)
                stamp[mod] = {"src": _sha(os.path.join(SRC, rel)), "so": _sha(target)}
            with open(STAMP + ".tmp", "w") as f:
                json.dump(stamp, f, indent=1)
            os.replace(STAMP + ".tmp", STAMP)
        finally:
            shutil.rmtree(tmp, ignore_errors=True)
        if verbose:
            print("rebuilt:", ", ".join(stale))
        return stale
    finally:
        fcntl.flock(lockf, fcntl.LOCK_UN)
        lockf.close()


if __name__ == "__main__":
    try:
        r = ensure_built(verbose=True, force="--force" in sys.argv)
        if not r:
            print("extensions up to date")
    except BuildError as e:
        print("BUILD ERROR:", e)
        sys.exit(2)
