"""Generic driver for bounded-exhaustive *input enumeration* properties.

A property module exposes PROP, an instance of InputProp:
  prepare(tier)        parent, before fork: build self.space (mc.core.space.Space); import code under test
  run_case(case)       worker: execute ONE case on the real code and judge it; returns
                       {"key": <outcome class>, "steps": int, "viol": None | [ {"sig":..., "msg":...}, ... ],
                        "counters": {name: int}}   (all optional but key)
  timeout_violation(case)  what a watchdog hit means (default: violation sig "hang")
  finish(agg)          parent: vacuity guards; returns (extra_coverage_dict, [harness_error_strings])
"""
import hashlib
import os
import sys
import time
import traceback
from collections import Counter

from . import pool as poolmod
from . import report

KEYCAP = 3_000_000


def stable_hash(x):
    return int.from_bytes(hashlib.blake2b(repr(x).encode("utf-8", "surrogatepass"), digest_size=8).digest(), "little")


def exc_signature(exc, roots=("mwlib", "qs")):
    """(exception type, innermost frame inside mwlib/qs) – the call-site signature of a crash."""
    tb = exc.__traceback__
    inner = None
    while tb is not None:
        fn = tb.tb_frame.f_code.co_filename
        for r in roots:
            marker = "/src/%s/" % r
            if marker in fn:
                inner = "%s/%s:%s" % (r, fn.split(marker, 1)[1], tb.tb_frame.f_code.co_name)
        tb = tb.tb_next
    return "%s@%s" % (type(exc).__name__, inner or "?")


_sqlite_open = []


def track_sqlitedicts():
    """mwlib never closes some of its SqliteDicts (one OS thread each): harmless in its one-shot processes, but a long-lived
    worker that runs thousands of cases runs out of threads.  Track every instance so that it can be closed after the case."""
    try:
        import sqlitedict
    except ImportError:
        return
    if getattr(sqlitedict.SqliteDict, "_verif_tracked", False):
        return
    orig = sqlitedict.SqliteDict.__init__

    def __init__(self, *a, **k):
        orig(self, *a, **k)
        _sqlite_open.append(self)
    sqlitedict.SqliteDict.__init__ = __init__
    sqlitedict.SqliteDict._verif_tracked = True


def close_leaked_sqlitedicts():
    while _sqlite_open:
        d = _sqlite_open.pop()
        try:
            d.close()
        except BaseException as e:
            if isinstance(e, poolmod.CaseTimeout):
                raise


class InputProp:
    id = "C00"
    level = "model_checking"
    rule = ""
    assumptions = ()
    soft_timeout = 20.0
    hard_timeout = 50.0
    chunk = 2000
    mem_gb = 4
    nsamples = 6
    # wall-clock budgets (at least 10x the run time on the idle sandbox, so that a slow or busy machine stays inside): a tree
    # on which the check crawls gets a verdict from what was explored so far (violations found -> exit 1) or none at all
    # (exit 2), never an endless run
    budget_s = {"quick": 1500.0, "thorough": 7200.0}
    failfast_s = {"quick": 90.0, "thorough": 900.0}  # with violations in hand, do not crawl on

    def prepare(self, tier):
        raise NotImplementedError

    def run_case(self, case):
        raise NotImplementedError

    def timeout_violation(self, case):
        return [{"sig": "hang", "msg": "watchdog (%ss) hit" % self.soft_timeout}]

    def worker_init(self, ctx):
        pass

    def finish(self, agg):
        return {}, []

    def describe(self, case):
        return case

    # ------------------------------------------------------------------ worker
    def _handle(self, payload, ctx):
        lo, hi = payload["lo"], payload["hi"]
        skip = set(payload.get("skip", ()))
        space = self.space
        track_sqlitedicts()
        out = {"n": 0, "steps": 0, "keys": set(), "sig_counts": Counter(), "viol": [], "counters": Counter(),
               "samples": [], "collect": []}
        t_chunk = time.time()
        for idx in range(lo, hi):
            if idx in skip:
                continue
            if idx > lo and time.time() - t_chunk > 40.0:
                out["resume"] = idx  # hand back what is done; the parent re-queues the rest
                break
            case = space[idx]
            ctx.begin(idx, self.soft_timeout)
            t_case = time.time()
            try:
                r = self.run_case(case)
            except poolmod.CaseTimeout:
                r = {"key": "hang", "viol": self.timeout_violation(case)}
                out["hangs"] = out.get("hangs", 0) + 1
            finally:
                ctx.end()
                close_leaked_sqlitedicts()
            # (how close the slowest case came to the wall-clock watchdog: reported in the evidence, never judged)
            t_case = time.time() - t_case
            if t_case > out.get("slowest", (0.0, -1))[0]:
                out["slowest"] = (t_case, idx)
            if out.get("hangs", 0) >= 3:
                out["aborted_at"] = idx  # a chunk in which everything hangs is not worth finishing
                out["n"] += 1
                for v in r.get("viol") or ():
                    out["sig_counts"][v["sig"]] += 1
                break
            out["n"] += 1
            out["steps"] += r.get("steps", 1)
            if len(out["keys"]) < KEYCAP:
                k = r.get("key")
                if isinstance(k, (set, frozenset, list)):
                    out["keys"].update(stable_hash(x) for x in k)
                else:
                    out["keys"].add(stable_hash(k))
            c = r.get("counters")
            if c:
                out["counters"].update(c)
            if r.get("collect"):
                out["collect"].extend(r["collect"])
            for v in r.get("viol") or ():
                out["sig_counts"][v["sig"]] += 1
                if out["sig_counts"][v["sig"]] <= 2:
                    rec = dict(v)
                    rec["idx"] = idx
                    rec["case"] = case
                    out["viol"].append(rec)
            if payload.get("sample") and len(out["samples"]) < 1 and idx == lo:
                out["samples"].append({"idx": idx, "case": self.describe(case), "outcome_key": str(r.get("key"))[:200]})
        return out

    # ------------------------------------------------------------------ parent
    def main(self, tier, seed, gate=True):
        import shutil
        import tempfile
        # everything the cases create through tempfile lands under one run-private root, removed at the end
        tmproot = tempfile.mkdtemp(prefix="verif-%s-" % self.id)
        old_tmp = tempfile.tempdir
        tempfile.tempdir = tmproot
        try:
            return self._main(tier, seed, gate)
        finally:
            tempfile.tempdir = old_tmp
            shutil.rmtree(tmproot, ignore_errors=True)

    def _main(self, tier, seed, gate=True):
        t0 = time.time()
        self.tier = tier
        self.prepare(tier)
        n = len(self.space)
        chunks = []
        lo = 0
        while lo < n:
            chunks.append({"lo": lo, "hi": min(n, lo + self.chunk)})
            lo += self.chunk
        # VERIF_SEED only rotates the order in which shards are handed to workers
        if chunks:
            r = seed % len(chunks)
            chunks = chunks[r:] + chunks[:r]
            step = max(1, len(chunks) // self.nsamples)
            for i in range(0, len(chunks), step):
                chunks[i]["sample"] = True
        p = poolmod.WorkerPool(self._handle, soft_timeout=self.soft_timeout, hard_timeout=self.hard_timeout,
                               mem_gb=self.mem_gb, init=self.worker_init)
        agg = {"n": 0, "steps": 0, "keys": set(), "sig_counts": Counter(), "viol": [], "counters": Counter(),
               "samples": [], "collect": []}
        verdict = report.Verdict(self.id, gate=gate)

        def on_result(i, res):
            agg["n"] += res["n"]
            agg["steps"] += res["steps"]
            if len(agg["keys"]) < KEYCAP:
                agg["keys"] |= res["keys"]
            agg["sig_counts"].update(res["sig_counts"])
            agg["counters"].update(res["counters"])
            agg["viol"].extend(res["viol"])
            agg["samples"].extend(res["samples"])
            agg["collect"].extend(res.get("collect", ()))
            if res.get("slowest", (0.0, -1))[0] > agg.get("slowest", (0.0, -1))[0]:
                agg["slowest"] = res["slowest"]

        nh = [0]

        again = []

        def count_hangs(i, res):
            on_result(i, res)
            nh[0] += res.get("hangs", 0)
            if res.get("resume") is not None:
                again.append({"lo": res["resume"], "hi": cur[i]["hi"], "skip": cur[i].get("skip", [])})

        results = []
        try:
            cur = chunks
            while cur:
                del again[:]
                results += p.map(cur, on_result=count_hangs,
                                 should_stop=lambda: (nh[0] + len(p.events) >= 12 or
                                                      (any(verdict._match_known(sg) is None for sg in agg["sig_counts"])
                                                       and time.time() - t0 > self.failfast_s.get(tier, 900.0))),
                                 deadline=t0 + self.budget_s.get(tier, 5400.0))
                if p.deadline_hit:
                    break
                cur = list(again)
        finally:
            p.close()
        self.stopped_early = p.deadline_hit
        if p.deadline_hit:
            print("%s: stopped early (%d watchdog hits, %.0fs elapsed); the space was NOT completed" % (
                self.id, nh[0] + len(p.events), time.time() - t0))
            if not agg["sig_counts"]:
                verdict.errors.append("run stopped early without a verdict (time budget or repeated watchdog hits)")
        for r in results:
            if r is None:
                continue
            if isinstance(r, tuple) and r and r[0] == "fatal":
                verdict.errors.append("worker failure: " + str(r[1])[-1500:])
        # hard hangs / crashes detected by the parent
        for (ci, cidx, kind) in p.events:
            case = self.space[cidx]
            if kind == "hang":
                vs = self.timeout_violation(case)
            else:
                vs = [{"sig": "worker-crash", "msg": "worker process died while executing the case"}]
            agg["n"] += 1
            for v in vs or ():
                agg["sig_counts"][v["sig"]] += 1
                rec = dict(v)
                rec["idx"] = cidx
                rec["case"] = case
                agg["viol"].append(rec)
        # finish() may add cross-case violations to agg["viol"] / agg["sig_counts"]
        extra, errs = self.finish(agg)
        verdict.errors.extend(errs)
        by_sig = {}
        for rec in agg["viol"]:
            by_sig.setdefault(rec["sig"], []).append(rec)
        for sig, cnt in agg["sig_counts"].items():
            recs = sorted(by_sig.get(sig, []), key=lambda r: r["idx"])
            verdict.add(sig, recs[0] if recs else None, count=cnt)
        rc = verdict.finish()
        cov = {
            "states": agg["n"],
            "transitions": agg["steps"],
            "traces_validated_against_impl": agg["n"],
            "evaluations": agg["n"],
            "distinct_nontrivial": len(agg["keys"]),
            "distinct_nontrivial_capped": len(agg["keys"]) >= KEYCAP,
            "rule": self.rule,
            "samples": sorted(agg["samples"], key=lambda s: s["idx"])[: self.nsamples] or [{"note": "empty space"}],
            "exhaustive": n == agg["n"] and not p.events and not self.stopped_early,
            "stopped_early_after_watchdog_hits": bool(self.stopped_early),
            "space_size": n,
            "counters": dict(agg["counters"]),
            "violation_signatures": {s: c for s, c in agg["sig_counts"].items()},
            "known_findings_seen": getattr(verdict, "n_known", 0),
            "hard_hangs_or_crashes": len(p.events),
            "slowest_case_wall_s": round(agg.get("slowest", (0.0, -1))[0], 2),
            "slowest_case_index": agg.get("slowest", (0.0, -1))[1],
            "watchdog_s": self.soft_timeout,
        }
        cov.update(extra)
        report.write_evidence(self.id, tier, seed, self.level, cov, time.time() - t0,
                              getattr(verdict, "n_new", 0), self.assumptions)
        print("%s %s: cases=%d steps=%d distinct_outcomes=%d new_violations=%d known=%d wall=%.1fs" % (
            self.id, tier, agg["n"], agg["steps"], len(agg["keys"]), getattr(verdict, "n_new", 0),
            getattr(verdict, "n_known", 0), time.time() - t0))
        return rc

    def replay(self, record):
        """Re-run exactly one stored case without the explorer; returns outcome dict."""
        self.tier = record.get("tier", "quick")
        self.prepare_replay(record)
        case = record["case"]
        if isinstance(case, list):
            case = _tuplify(case)
        poolmod.install_watchdog()  # (the same CPU-time watchdog as in the workers)
        poolmod.arm(self.soft_timeout)
        try:
            r = self.run_case(case)
        except poolmod.CaseTimeout:
            r = {"key": "hang", "viol": self.timeout_violation(case)}
        finally:
            poolmod.disarm()
        viol = r.get("viol") or []
        want = record.get("sig")
        match = [v for v in viol if v["sig"] == want] or viol
        return {"violated": bool(viol), "sig": match[0]["sig"] if match else None,
                "msg": match[0].get("msg") if match else None, "all_sigs": [v["sig"] for v in viol]}

    def prepare_replay(self, record):
        self.prepare(record.get("tier", "quick"))


def _tuplify(x):
    if isinstance(x, list):
        return tuple(_tuplify(y) for y in x)
    return x
