"""Reference interpreter for the MediaWiki template language over GENERATED ASTs (shares no code with mwlib).

Value  = list of items (concatenated).
Item   = ("lit", text)
       | ("param", name, default)            default = Value or None            {{{name|default}}}
       | ("call", tname, args)               args = [(name or None, wl, Value, wr)]   {{T|a| x = b }}
       | ("if", cond, then, else_)           each = (wl, Value, wr)             {{#if: c | t | e }}
       | ("ifeq", a, b, then, else_)
       | ("switch", v, cases, default)       cases = [([key Values], result or None)]; default = result or None
       | ("switchx", v, items)               items = [("bare", w) | ("kv", key_w, result_w)] - the raw argument list, '#default' is just a key

Semantics (Help:Templates, Help:Extension:ParserFunctions):
  * positional arguments are bound by position and NOT trimmed; named arguments (also "1=") are trimmed, name and value;
    a later binding of the same name wins;
  * {{{n}}} -> bound value; else the default (not trimmed); else the literal text {{{n}}};
  * #if: condition trimmed, non-empty -> then, else else; the chosen branch is trimmed; missing branch -> empty;
  * #ifeq: both sides trimmed; equal if identical strings or both numeric and equal by value; result trimmed;
  * #switch: comparand and cases trimmed, comparison as #ifeq; a case without '=' falls through to the next case that has
    a result; '#default = r' (or a last case without '=') is the default; result trimmed; nothing matches -> empty.
"""


def ser_value(v):
    return "".join(ser_item(i) for i in v)


def ser_ws(w):
    wl, v, wr = w
    return wl + ser_value(v) + wr


def ser_item(it):
    k = it[0]
    if k == "lit":
        return it[1]
    if k == "param":
        if it[2] is None:
            return "{{{%s}}}" % it[1]
        return "{{{%s|%s}}}" % (it[1], ser_value(it[2]))
    if k == "call":
        parts = [it[1]]
        for (name, wl, v, wr) in it[2]:
            if name is None:
                parts.append(wl + ser_value(v) + wr)
            else:
                parts.append("%s=%s%s%s" % (name, wl, ser_value(v), wr))
        return "{{" + "|".join(parts) + "}}"
    if k == "if":
        return "{{#if:%s|%s|%s}}" % (ser_ws(it[1]), ser_ws(it[2]), ser_ws(it[3]))
    if k == "ifeq":
        return "{{#ifeq:%s|%s|%s|%s}}" % (ser_ws(it[1]), ser_ws(it[2]), ser_ws(it[3]), ser_ws(it[4]))
    if k == "switchx":
        parts = [ser_ws(it[1])]
        for x in it[2]:
            parts.append(ser_ws(x[1]) if x[0] == "bare" else ser_ws(x[1]) + "=" + ser_ws(x[2]))
        return "{{#switch:" + "|".join(parts) + "}}"
    if k == "switch":
        parts = [ser_ws(it[1])]
        for keys, res in it[2]:
            for kk in keys[:-1]:
                parts.append(ser_ws(kk))
            if res is None:
                parts.append(ser_ws(keys[-1]))
            else:
                parts.append(ser_ws(keys[-1]) + "=" + ser_ws(res))
        if it[3] is not None:
            parts.append("#default=" + ser_ws(it[3]))
        return "{{#switch:" + "|".join(parts) + "}}"
    raise ValueError(k)


import re as _re

# PHP is_numeric (what MediaWiki's #ifeq/#switch use): optional sign, ASCII digits with an optional fraction, optional exponent
_NUMERIC = _re.compile(r"^[+-]?([0-9]+(\.[0-9]*)?|\.[0-9]+)([eE][+-]?[0-9]+)?$")


def as_num(s):
    if not _NUMERIC.match(s):
        return None
    try:
        return float(s) if any(c in s for c in ".eE") else int(s)
    except (ValueError, OverflowError):
        return None


def equal(a, b):
    if a == b:
        return True
    x, y = as_num(a), as_num(b)
    return x is not None and y is not None and x == y


class Interp:
    def __init__(self, templates):
        self.templates = templates  # name -> Value

    def value(self, v, env):
        return "".join(self.item(i, env) for i in v)

    def ws(self, w, env):
        wl, v, wr = w
        return wl + self.value(v, env) + wr

    def item(self, it, env):
        k = it[0]
        if k == "lit":
            return it[1]
        if k == "param":
            if it[1].strip() in env:  # the name is looked up trimmed ...
                return env[it[1].strip()]
            if it[2] is not None:
                return self.value(it[2], env)
            return "{{{%s}}}" % it[1]  # ... and an unbound parameter stays as it was written
        if k == "call":
            new = {}
            pos = 0
            for (name, wl, v, wr) in it[2]:
                val = wl + self.value(v, env) + wr
                if name is None:
                    pos += 1
                    new[str(pos)] = val
                else:
                    new[name.strip()] = val.strip()
            return self.value(self.templates[it[1]], new)
        if k == "if":
            c = self.ws(it[1], env).strip()
            return self.ws(it[2] if c else it[3], env).strip()
        if k == "ifeq":
            a, b = self.ws(it[1], env).strip(), self.ws(it[2], env).strip()
            return self.ws(it[3] if equal(a, b) else it[4], env).strip()
        if k == "switchx":
            # ParserFunctions::switch, item by item ("#default" in either position, repeated, or overridden by a last bare item)
            primary = self.ws(it[1], env).strip()
            found = default_found = last_no_eq = False
            default = None
            test = ""
            for x in it[2]:
                if x[0] == "kv":
                    last_no_eq = False
                    if found:
                        return self.ws(x[2], env).strip()
                    test = self.ws(x[1], env).strip()
                    if equal(primary, test):
                        return self.ws(x[2], env).strip()
                    if default_found or test == "#default":
                        default = x[2]
                        default_found = False
                else:
                    last_no_eq = True
                    test = self.ws(x[1], env).strip()
                    if equal(primary, test):
                        found = True
                    elif test == "#default":
                        default_found = True
            if last_no_eq:
                return test
            if default is not None:
                return self.ws(default, env).strip()
            return ""
        if k == "switch":
            v = self.ws(it[1], env).strip()
            cases = it[2]
            for idx, (keys, res) in enumerate(cases):
                if any(equal(v, self.ws(kk, env).strip()) for kk in keys):
                    # fall through to the next case with a result
                    for (_, r2) in cases[idx:]:
                        if r2 is not None:
                            return self.ws(r2, env).strip()
                    # the matched case is the trailing bare one: it is the default value itself -> handled below
                    break
            if it[3] is not None:
                return self.ws(it[3], env).strip()
            if cases and cases[-1][1] is None:
                return self.ws(cases[-1][0][-1], env).strip()  # last bare case is the default
            return ""
        raise ValueError(k)
