"""Reference model of the job queue (the specification, kept boring).

It consumes the *linearised trace of atomic steps* the harness records around the real handlers
(`call`/`return`/`raise`/`killed-in-call`/`shutdown`/`tick`/`restart`) and says, step by step, what each RPC must
return and what the abstract queue state must be.  gevent is cooperative, so every step between two
blocking points is atomic and the trace order *is* the execution order – the model never has to guess
an interleaving, and where the implementation makes a free choice (which blocked worker is served) the
model accepts any eligible one.

Abstract state:   jobs[jid] = {channel, priority, serial, done, error, result, deadline}
                  waiting    = set of jids queued (order is derived: (priority, serial))
                  holding[c] = jids handed to connection c and not yet given back
                  pulling[c] = channel list of a connection blocked in qpull
                  waitingfor[c] = jobids of a connection blocked in qwait
"""


class Divergence(Exception):
    def __init__(self, sig, msg):
        Exception.__init__(self, msg)
        self.sig = sig
        self.msg = msg


class QueueModel:
    def __init__(self):
        self.jobs = {}
        self.waiting = set()
        self.holding = {}
        self.pulling = {}
        self.waitingfor = {}
        self.count = 0
        self.stats = {}
        self.clock = 1000.0
        self.expect = {}  # conn -> ("return"|"raise"|"block", value)
        self.problems = []  # (sig, msg) – collected, the run continues after resynchronising
        self.deliveries = {}  # jid -> number of times handed out
        self.enqueueings = {}  # jid -> number of (re-)enqueueings that entitle to a delivery
        self.dropped = set()
        self.restarts = 0
        self.nfinished = {}
        self.issued = set()

    # ------------------------------------------------------------------ helpers
    def flag(self, sig, msg):
        self.problems.append((sig, msg))

    def order(self, jid):
        j = self.jobs[jid]
        return (j["priority"], j["serial"])

    def candidates(self, chans):
        """jids waiting (current incarnations only), best first"""
        return sorted((jid for jid in self.waiting
                       if not self.jobs[jid]["done"] and (not chans or self.jobs[jid]["channel"] in chans)),
                      key=self.order)

    def finish(self, jid, error, result=None, job=None):
        j = job or self.jobs[jid]
        if j["done"]:
            return
        j["done"], j["error"], j["result"] = True, error, result
        if self.jobs.get(jid) is j:
            self.waiting.discard(jid)
        self.nfinished[j["channel"]] = self.nfinished.get(j["channel"], 0) + (1 if (error is None or error) else 0)
        c = self.stats.setdefault(j["channel"], {"error": 0, "timeout": 0, "killed": 0, "success": 0})
        if error is None:
            c["success"] += 1
        elif error in ("timeout", "killed"):
            c[error] += 1
        elif error:
            c["error"] += 1

    def snap(self, jid, job=None):
        j = job or self.jobs[jid]
        return {"jobid": jid, "done": j["done"], "error": j["error"], "result": j["result"]}

    # ------------------------------------------------------------------ trace consumption
    def step(self, ev):
        kind = ev[0]
        if kind == "call":
            self.on_call(ev[1], ev[2], ev[3], ev[4])
        elif kind == "return":
            self.on_return(ev[1], ev[2], ev[3])
        elif kind == "raise":
            self.on_raise(ev[1], ev[2], ev[3], ev[4])
        elif kind == "killed-in-call":
            self.pulling.pop(ev[1], None)
            self.waitingfor.pop(ev[1], None)
            self.expect.pop(ev[1], None)
        elif kind == "shutdown":
            conn = ev[1]
            self.pulling.pop(conn, None)
            self.waitingfor.pop(conn, None)
            for jid, job in self.holding.pop(conn, []):
                if not job["done"] and self.jobs.get(jid) is job:
                    self.waiting.add(jid)  # given back: eligible for one more delivery
                    self.enqueueings[jid] = self.enqueueings.get(jid, 0) + 1
        elif kind == "tick":
            t = ev[1]
            for jid, j in self.jobs.items():
                if not j["done"] and j["deadline"] <= t and jid not in self.dropped:
                    self.finish(jid, "timeout")
        elif kind == "restart":
            for conn, jids in list(self.holding.items()):
                for jid, job in jids:
                    if not job["done"] and self.jobs.get(jid) is job:
                        self.waiting.add(jid)
                        self.enqueueings[jid] = self.enqueueings.get(jid, 0) + 1
            self.holding.clear()
            self.pulling.clear()
            self.waitingfor.clear()
            self.expect.clear()
            # (the per-channel outcome counters belong to the saved state: they must still add up after a restart)
            self.restarts += 1
        elif kind == "watchdog":
            # dropdead(): jobs whose drop-deadline has passed are forgotten; finished jobs without one get now + ttl
            now = int(ev[1])
            for jid, j in list(self.jobs.items()):
                if jid in self.dropped:
                    continue
                if j.get("wd_deadline") and j["wd_deadline"] < now:
                    self.dropped.add(jid)
                    self.waiting.discard(jid)
                elif j["done"] and not j.get("wd_deadline"):
                    j["wd_deadline"] = now + j.get("ttl", 3600)
        elif kind in ("response", "shutdown-done"):
            pass

    def on_call(self, conn, name, kw, clock):
        if name == "qadd":
            jid = kw.get("jobid")
            ex = self.jobs.get(jid) if jid not in self.dropped else None
            if jid is not None and ex is not None and ex["error"] != "killed":
                self.expect[conn] = ("return", jid)
                return
            self.count += 1
            if jid is None:
                # server-numbered: the next number that is not the id of a job the server knows (a client may have chosen it)
                while self.count in self.jobs and self.count not in self.dropped:
                    self.count += 1
                jid = self.count
                if jid in self.issued:
                    self.flag("id-reused", "new job got id %r which was already issued" % (jid,))
            self.issued.add(jid)
            tmo = kw.get("timeout")
            self.jobs[jid] = {"channel": kw["channel"], "priority": kw.get("priority", 0), "serial": self.count,
                              "done": False, "error": None, "result": None,
                              "deadline": clock + (120.0 if tmo is None else tmo)}
            self.waiting.add(jid)
            self.dropped.discard(jid)  # an id forgotten by the watchdog may be used again
            self.enqueueings[jid] = self.enqueueings.get(jid, 0) + 1
            self.expect[conn] = ("return", jid)
        elif name == "qpull":
            chans = kw.get("channels") or []
            cands = self.candidates(chans)
            if cands:
                self.expect[conn] = ("return-now", cands[0])
            else:
                self.expect[conn] = ("block", None)
            self.pulling[conn] = chans
        elif name == "qfinish":
            jid = kw["jobid"]
            if jid not in self.jobs or jid in self.dropped:
                self.expect[conn] = ("raise", "KeyError")
                return
            if not self.jobs[jid]["done"]:
                self.jobs[jid]["ttl"] = min(10, 3600) if kw.get("error") else 3600
            self.finish(jid, kw.get("error"), kw.get("result"))
            self.holding[conn] = [(j, o) for (j, o) in self.holding.get(conn, []) if j != jid]
            self.expect[conn] = ("return", None)
        elif name == "qkill":
            for jid in kw["jobids"]:
                if jid in self.jobs and jid not in self.dropped:
                    self.finish(jid, "killed")
                self.holding[conn] = [(j, o) for (j, o) in self.holding.get(conn, []) if j != jid]
            self.expect[conn] = ("return", None)
        elif name == "qwait":
            jids = kw["jobids"]
            if any(j not in self.jobs or j in self.dropped for j in jids):
                self.expect[conn] = ("raise", "KeyError")
            elif all(self.jobs[j]["done"] for j in jids):
                self.expect[conn] = ("return", [self.snap(j) for j in jids])
            else:
                self.expect[conn] = ("block", None)
                self.waitingfor[conn] = [(j, self.jobs[j]) for j in jids]
        elif name == "qinfo":
            jid = kw["jobid"]
            self.expect[conn] = ("info", jid)
        elif name == "qsetinfo":
            jid = kw["jobid"]
            if jid not in self.jobs or jid in self.dropped:
                self.expect[conn] = ("raise", "KeyError")
            else:
                self.jobs[jid].setdefault("info", {}).update(kw["info"])
                self.expect[conn] = ("return", None)
        elif name == "getstats":
            self.expect[conn] = ("stats", None)
        else:
            self.expect[conn] = ("any", None)

    def on_return(self, conn, name, value):
        exp = self.expect.pop(conn, None)
        if name == "qpull":
            chans = self.pulling.pop(conn, [])
            got = value.get("jobid") if isinstance(value, dict) else None
            cands = self.candidates(chans)
            if got not in self.jobs:
                self.flag("pull-unknown-job", "%s pulled %r which was never accepted" % (conn, got))
                return
            j = self.jobs[got]
            if chans and j["channel"] not in chans:
                self.flag("pull-wrong-channel", "%s asked for %r and received %r of channel %r" % (conn, chans, got, j["channel"]))
            if j["done"]:
                self.flag("pull-finished-job", "%s received %r which is already finished (%r)" % (conn, got, j["error"]))
            elif got not in self.waiting:
                self.flag("pull-not-queued", "%s received %r which is not waiting (held by %r)" % (
                    conn, got, [c for c, js in self.holding.items() if any(x == got for x, o in js)]))
            elif cands and got != cands[0]:
                self.flag("pull-order", "%s received %r but %r is ahead of it in (priority, serial) order" % (conn, got, cands[0]))
            self.waiting.discard(got)
            self.holding[conn] = [(x, o) for (x, o) in self.holding.get(conn, []) if x != got] + [(got, j)]
            self.deliveries[got] = self.deliveries.get(got, 0) + 1
            if self.deliveries[got] > self.enqueueings.get(got, 0):
                self.flag("duplicate-delivery", "%r handed out %d times for %d enqueueing(s)/give-backs" % (
                    got, self.deliveries[got], self.enqueueings.get(got, 0)))
            return
        if name == "qwait":
            jids = self.waitingfor.pop(conn, None)
            if exp and exp[0] == "return":
                want = exp[1]
            else:
                want = [self.snap(j, o) for (j, o) in (jids or [])]
                for (j, o) in (jids or []):
                    if not o["done"]:
                        self.flag("wait-early", "%s released from qwait although %r is not finished" % (conn, j))
            if value != want:
                self.flag("wait-value", "%s qwait returned %r, expected %r" % (conn, value, want))
            return
        if exp is None:
            self.flag("unexpected-return", "%s %s returned %r with no call outstanding" % (conn, name, value))
            return
        if exp[0] == "raise":
            self.flag("missing-error", "%s %s returned %r, expected %s" % (conn, name, value, exp[1]))
        elif exp[0] == "return" and value != exp[1]:
            self.flag("return-value", "%s %s returned %r, expected %r" % (conn, name, value, exp[1]))
        elif exp[0] == "info":
            jid = exp[1]
            if jid not in self.jobs or jid in self.dropped:
                if value is not None:
                    self.flag("info-value", "qinfo(%r) returned %r for an unknown job" % (jid, value))
            else:
                j = self.jobs[jid]
                if not isinstance(value, dict):
                    self.flag("info-value", "qinfo(%r) returned %r" % (jid, value))
                else:
                    got = (bool(value.get("done")), value.get("error"), value.get("result"), value.get("channel"))
                    want = (j["done"], j["error"], j["result"], j["channel"])
                    if got != want:
                        self.flag("info-value", "qinfo(%r) says %r, expected %r" % (jid, got, want))
        elif exp[0] == "stats":
            self.check_stats(value)

    def check_stats(self, value):
        want_c2s = {k: v for k, v in self.stats.items()}
        got_c2s = value.get("channel2stat", {})
        if got_c2s != want_c2s:
            self.flag("stats-counters", "channel2stat %r, expected %r" % (got_c2s, want_c2s))
        busy = {k: v for k, v in value.get("busy", {}).items() if v}
        want_busy = {}
        for jid in self.waiting:
            if not self.jobs[jid]["done"]:
                ch = self.jobs[jid]["channel"]
                want_busy[ch] = want_busy.get(ch, 0) + 1
        if busy != want_busy:
            self.flag("stats-busy", "busy %r, expected %r" % (busy, want_busy))
        if value.get("count") != self.count:
            self.flag("stats-count", "count %r, expected %r" % (value.get("count"), self.count))
        # counters add up to the number of finished jobs per channel
        for ch, c in got_c2s.items():
            n = sum(c.values())
            fin = self.nfinished.get(ch, 0)
            if n != fin:
                self.flag("stats-sum", "counters of %r add up to %d, finished jobs: %d" % (ch, n, fin))

    def on_raise(self, conn, name, etype, msg):
        exp = self.expect.pop(conn, None)
        self.pulling.pop(conn, None)
        self.waitingfor.pop(conn, None)
        if exp and exp[0] == "raise":
            return
        self.flag("unexpected-error", "%s %s raised %s(%s), expected %r" % (conn, name, etype, msg, exp))

    def after_call_check(self, conn, name, returned_immediately):
        """called by the driver right after a `call` step knowing whether the handler returned without blocking"""
        exp = self.expect.get(conn)
        if not exp:
            return
        if exp[0] == "block" and returned_immediately:
            return  # judged in on_return
        if exp[0] == "return-now" and not returned_immediately:
            self.flag("pull-blocked-with-candidate",
                      "%s blocked in qpull although %r was waiting in a requested channel" % (conn, exp[1]))
