"""Reference evaluator for #expr over GENERATED TREES, with the operator table documented for MediaWiki's
ParserFunctions (Help:Extension:ParserFunctions##expr; ExprParser.php precedence):
    unary + -                          10
    not abs floor ceil trunc           9
    ^                                  8
    * / div mod                        7
    + -                                6
    = != <> < > <= >=                  4
    and                                3
    or                                 2
all binary operators left-associative.  Shares no code with mwlib.

A tree is a literal string ("2", "0.5"), ("u", op, child) or ("b", op, left, right).
"""
import math

PREC = {"u-": 10, "not": 9, "abs": 9, "floor": 9, "ceil": 9, "trunc": 9, "^": 8, "*": 7, "/": 7, "div": 7, "mod": 7, "+": 6, "-": 6,
        "=": 4, "!=": 4, "<>": 4, "<": 4, ">": 4, "<=": 4, ">=": 4, "and": 3, "or": 2}
BINARY = ["+", "-", "*", "/", "div", "mod", "^", "=", "!=", "<>", "<", ">", "<=", ">=", "and", "or"]
UNARY = ["-", "not", "abs", "floor", "ceil", "trunc"]


class Undefined(Exception):
    pass


def evaluate(t):
    if isinstance(t, str):
        return float(t)
    if t[0] == "u":
        v = evaluate(t[2])
        op = t[1]
        if op == "-":
            return -v
        if op == "not":
            return 0.0 if v else 1.0
        if op == "abs":
            return abs(v)
        if op == "floor":
            return float(math.floor(v))
        if op == "ceil":
            return float(math.ceil(v))
        if op == "trunc":
            return float(math.trunc(v))
        raise ValueError(op)
    op, a, b = t[1], evaluate(t[2]), evaluate(t[3])
    if op == "+":
        return a + b
    if op == "-":
        return a - b
    if op == "*":
        return a * b
    if op in ("/", "div"):
        if b == 0:
            raise Undefined("division by zero")
        return a / b
    if op == "mod":
        if a < 0 or b < 0:
            raise Undefined("mod with a negative operand (excluded by the property)")
        ia, ib = math.trunc(a), math.trunc(b)
        if ib == 0:
            raise Undefined("modulo by zero")
        return float(ia % ib)
    if op == "^":
        try:
            if a == 0 and b < 0:
                raise Undefined("0 to a negative power")
            r = math.pow(a, b)
        except (ValueError, OverflowError):
            raise Undefined("pow domain")
        return r
    if op == "=":
        return 1.0 if a == b else 0.0
    if op in ("!=", "<>"):
        return 1.0 if a != b else 0.0
    if op == "<":
        return 1.0 if a < b else 0.0
    if op == ">":
        return 1.0 if a > b else 0.0
    if op == "<=":
        return 1.0 if a <= b else 0.0
    if op == ">=":
        return 1.0 if a >= b else 0.0
    if op == "and":
        return 1.0 if (a and b) else 0.0
    if op == "or":
        return 1.0 if (a or b) else 0.0
    raise ValueError(op)


def prec(t):
    if isinstance(t, str):
        return 99
    if t[0] == "u":
        return PREC["u-"] if t[1] == "-" else PREC[t[1]]
    return PREC[t[1]]


def minimal(t):
    """serialise with the minimal parentheses the reference table requires"""
    if isinstance(t, str):
        return t
    if t[0] == "u":
        c = t[2]
        s = minimal(c)
        # every binary operator binds looser than every unary one
        if not isinstance(c, str) and c[0] == "b":
            s = "(" + s + ")"
        return ("-" + s) if t[1] == "-" and not s.startswith("-") else (t[1] + " " + s)
    op, l, r = t[1], t[2], t[3]
    p = PREC[op]
    ls, rs = minimal(l), minimal(r)
    if not isinstance(l, str) and l[0] == "b" and prec(l) < p:
        ls = "(" + ls + ")"
    if not isinstance(r, str) and r[0] == "b" and prec(r) <= p:
        rs = "(" + rs + ")"
    return "%s %s %s" % (ls, op, rs)


def full(t):
    """serialise fully parenthesised"""
    if isinstance(t, str):
        return t
    if t[0] == "u":
        return "(%s (%s))" % (t[1], full(t[2]))
    return "((%s) %s (%s))" % (full(t[2]), t[1], full(t[3]))


def trees(nops, literals):
    """all trees with exactly nops operator nodes, in a canonical order"""
    if nops == 0:
        for l in literals:
            yield l
        return
    for op in UNARY:
        for c in trees(nops - 1, literals):
            yield ("u", op, c)
    for op in BINARY:
        for k in range(nops):
            for l in trees(k, literals):
                for r in trees(nops - 1 - k, literals):
                    yield ("b", op, l, r)


def count(nops, nlit, memo={}):
    key = (nops, nlit)
    if key in memo:
        return memo[key]
    if nops == 0:
        v = nlit
    else:
        v = len(UNARY) * count(nops - 1, nlit) + len(BINARY) * sum(count(k, nlit) * count(nops - 1 - k, nlit) for k in range(nops))
    memo[key] = v
    return v


def nth(nops, literals, i):
    """i-th tree (same order as trees()) without enumerating the others"""
    if nops == 0:
        return literals[i]
    nl = len(literals)
    cu = count(nops - 1, nl)
    for op in UNARY:
        if i < cu:
            return ("u", op, nth(nops - 1, literals, i))
        i -= cu
    for op in BINARY:
        for k in range(nops):
            cl, cr = count(k, nl), count(nops - 1 - k, nl)
            if i < cl * cr:
                return ("b", op, nth(k, literals, i // cr), nth(nops - 1 - k, literals, i % cr))
            i -= cl * cr
    raise IndexError
