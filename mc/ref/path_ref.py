"""Reference path resolution for C15: purely lexical, POSIX, independent of os.path.normpath."""


def resolve(dst_abs, member):
    """lexical target of `member` extracted into absolute directory dst_abs -> list of path components"""
    if member.startswith("/"):
        stack = []
    else:
        stack = [c for c in dst_abs.split("/") if c]
    for comp in member.split("/"):
        if comp in ("", "."):
            continue
        if comp == "..":
            if stack:
                stack.pop()
            continue
        stack.append(comp)
    return stack


def escapes(dst_abs, member):
    """True iff the member's lexical target lies outside dst_abs (a target equal to the destination itself is not
    an escape; what happens to such a degenerate member is not judged)"""
    d = [c for c in dst_abs.split("/") if c]
    t = resolve(dst_abs, member)
    return t[:len(d)] != d
