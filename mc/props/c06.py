"""C06 – every cleaning pass completes on every parsed document."""
from mc.props.clean_explore import CleanExplore


class C06(CleanExplore):
    id = "C06"
    which = "C06"
    rule = ("same exploration as C05; each pass is called directly (no catch-all) and must return within the watchdog; the fixed-point "
            "passes are applied a second time and must not change the tree; clean_all() must report no swallowed ERROR; the articles of a book cleaned in one go must come out as from one-article books; "
            "distinct = distinct final trees")
    assumptions = ("inputs from the stated alphabets (mc/gen/wikitext.py, mc/gen/cleantriggers.py)",)


PROP = C06()
