"""C12 – title normalization is canonical and idempotent.

Space (fully enumerated): bundled site x namespace x every name of it (local, canonical, aliases) x case variants x
separator spellings x leading colon x surrounding whitespace / directional marks x remainder x remainder spelling x
default namespace.  Oracle: all spellings of one (site, namespace, remainder) give one (ns, partial, full); ns is the
id the siteinfo defines for that name; full = local name + ':' + partial; first letter capitalised iff the site says
so; splitname(full, 0) and splitname(':' + full, d) return the same triple (idempotence).
"""
from mc.core.runner import InputProp
from mc.core.space import Items

LRM, RLM = "‎", "‏"
SITES_ALL = ["en", "de", "ja", "fr", "es", "it", "nl", "no", "pl", "pt", "simple", "sv"]
REMAINDERS = ["a", "A b", "ä", "ß", "ǆ", "ı", "1a", "中", "a:b", "éa b c", "a : b", "Star : Le b", "a: b :c"]
SEPS = {"plain": ":", "sp-before": " :", "sp-after": ": ", "underscores": "_:_", "wide": "  :  ",
        # directional marks at the edge of the page part (pasted titles carry them anywhere)
        "lrm-after": ":" + LRM, "rlm-after": ":" + RLM, "sp-lrm-sp-after": ": " + LRM + " ", "us-lrm-after": ":_" + LRM}
LEADS = {"none": "", "colon": ":", "sp-colon-sp": " : "}
SURROUND = {"none": ("", ""), "space": (" ", " "), "underscore": ("_", "_"), "lrm": (LRM, LRM), "rlm": (RLM, RLM),
            "space+lrm": (" " + LRM, LRM + " "),
            # (wave 11) whitespace is not only ASCII: no-break space, ideographic space (pasted titles; the bundled ja site)
            "unicode-space": ("\u3000", "\xa0")}
DEFAULTNS = [0, 1, 6, 10, 14, 2300]  # (2300: a namespace that is 'case-sensitive' on every bundled site)


def case_variants(name):
    vs = {"asis": name, "lower": name.lower(), "upper": name.upper(), "swap": name.swapcase()}
    out = {}
    for k, v in vs.items():
        # only variants that are case spellings of the same name (ß -> SS changes the name itself)
        if v.lower() == name.lower() and v not in out.values():
            out[k] = v
    return out


def rem_spellings(r):
    return {"asis": r, "underscores": r.replace(" ", "_"), "double": r.replace(" ", "  "), "mixed": r.replace(" ", "_ ")}


class C12(InputProp):
    id = "C12"
    rule = ("every spelling (name variant x case x separator x leading colon x surrounding whitespace/marks x remainder spelling x "
            "default namespace) of every (site, namespace, remainder); a case = one (site, namespace name); distinct = distinct canonical full names")
    assumptions = ("which capital letter a first letter maps to (e.g. ß, ǆ) is not judged, only that all spellings agree and the result is a fixed point",)
    chunk = 4
    soft_timeout = 120.0
    hard_timeout = 200.0

    def prepare(self, tier):
        from mwlib.network import siteinfo
        from mwlib.core import nshandling
        self.nshandling = nshandling
        self.siteinfo = siteinfo
        sites = SITES_ALL[:3] if tier == "quick" else SITES_ALL
        self.defaultns = DEFAULTNS if tier != "quick" else [0, 10, 2300]
        cases = []
        for lang in sites:
            si = siteinfo.get_siteinfo(lang)
            for nsid_s, ns in sorted(si["namespaces"].items(), key=lambda kv: int(kv[0])):
                nsid = int(nsid_s)
                if nsid < 0:
                    continue
                names = []
                if ns["*"]:
                    names.append(ns["*"])
                if ns.get("canonical") and ns["canonical"] not in names:
                    names.append(ns["canonical"])
                for al in si.get("namespacealiases", []):
                    if al["id"] == nsid and al["*"] not in names:
                        names.append(al["*"])
                if nsid == 0:
                    names = [""]
                for nm in names:
                    cases.append((lang, nsid, nm))
        # two sites in one process: after a handler for site A has been built and used, site B must still answer from ITS OWN
        # namespace table - asked with every namespace name and alias that ANY bundled site knows
        pairs = [("@after", a, b) for a in SITES_ALL for b in SITES_ALL if a != b and (tier != "quick" or a in ("en", "de", "es", "simple") or b in ("en", "simple"))]
        self.space = Items(cases + pairs, name="site-ns-name")
        self._handlers = {}
        self._allnames = None

    def handler(self, lang):
        if lang not in self._handlers:
            self._handlers[lang] = self.nshandling.NsHandler(self.siteinfo.get_siteinfo(lang))
        return self._handlers[lang]

    def ambiguous(self, si, name, nsid):
        """a name that (case-insensitively) belongs to two namespaces of the site is not a spelling of one title"""
        n = name.lower()
        ids = set()
        for k, ns in si["namespaces"].items():
            if ns["*"].lower() == n or ns.get("canonical", "").lower() == n:
                ids.add(int(k))
        for al in si.get("namespacealiases", []):
            if al["*"].lower() == n:
                ids.add(al["id"])
        return len(ids) > 1

    def all_names(self):
        if self._allnames is None:
            names = set()
            for lang in SITES_ALL:
                si = self.siteinfo.get_siteinfo(lang)
                for ns in si["namespaces"].values():
                    names.update(x for x in (ns["*"], ns.get("canonical")) if x)
                names.update(al["*"] for al in si.get("namespacealiases", []))
            self._allnames = sorted(names)
        return self._allnames

    def run_after(self, first, lang):
        sia, sib = self.siteinfo.get_siteinfo(first), self.siteinfo.get_siteinfo(lang)
        ha = self.nshandling.NsHandler(sia)
        ha.splitname("Talk:x", 0)
        for al in sia.get("namespacealiases", [])[:3]:
            ha.splitname(al["*"] + ":x", 0)
        hb = self.nshandling.NsHandler(sib)
        cap = sib["general"].get("case") == "first-letter"
        table = {}
        for k, ns in sib["namespaces"].items():
            for x in (ns["*"], ns.get("canonical")):
                if x:
                    table.setdefault(x.lower(), set()).add(int(k))
        for al in sib.get("namespacealiases", []):
            table.setdefault(al["*"].lower(), set()).add(al["id"])
        viol = {}
        n = 0
        for name in self.all_names():
            ids = table.get(name.lower(), set())
            if len(ids) > 1:
                continue
            for spelled in (name, name.lower()):
                title = spelled + ":x y"
                if ids:
                    nsid = next(iter(ids))
                    local = sib["namespaces"][str(nsid)]["*"]
                    capn = (sib["namespaces"][str(nsid)].get("case") or sib["general"].get("case")) == "first-letter"
                    exp = (nsid, "X y" if capn else "x y", (local + ":" if local else "") + ("X y" if capn else "x y"))
                else:
                    t = title[:1].upper() + title[1:] if cap and len(title[:1].upper()) == 1 else title
                    exp = (0, t, t)
                n += 1
                try:
                    got = hb.splitname(title, 0)
                except Exception as e:
                    got = ("raised", type(e).__name__, str(e)[:60])
                if got != exp and "after" not in viol:
                    viol["after"] = {"sig": "other-site-first:%s" % ("ns" if got[0] != exp[0] else "name"),
                                     "msg": "[%s, after a handler for %s was used in the same process] splitname(%r, 0) = %r, the site's own tables say %r" % (lang, first, title, got, exp)}
        return {"key": {"@after:%s" % lang}, "steps": n, "viol": list(viol.values())}

    def run_case(self, case):
        if case[0] == "@after":
            return self.run_after(case[1], case[2])
        lang, nsid, nsname = case
        h = self.handler(lang)
        si = h.siteinfo
        local = si["namespaces"][str(nsid)]["*"]
        # "where the site says so": a namespace's own 'case' entry overrides the wiki-wide setting
        cap = (si["namespaces"][str(nsid)].get("case") or si["general"].get("case")) == "first-letter"
        viol = {}
        keys = set()
        n = 0
        if nsname and self.ambiguous(si, nsname, nsid):
            return {"key": "ambiguous-name", "steps": 0, "counters": {"ambiguous_names": 1}}

        def bad(sig, msg):
            if sig not in viol:
                viol[sig] = {"sig": sig, "msg": msg}

        for rem in REMAINDERS:
            if nsid == 0 and ":" in rem:
                # "a:b" in the main namespace: fine as long as 'a' is no namespace name of the site
                if h._find_namespace(rem.split(":")[0])[0]:
                    continue
            tail = " ".join(rem.split())
            # MediaWiki leaves a first letter whose capital is not one letter (ß -> SS) as it is
            ref_partial = (tail[:1].upper() + tail[1:]) if cap and len(tail[:1].upper()) == 1 else tail
            ref_full = (local + ":" if local else "") + ref_partial
            ref = (nsid, ref_partial, ref_full)
            for rsk, rs in rem_spellings(rem).items():
                for cvk, nsv in (case_variants(nsname).items() if nsname else [("asis", "")]):
                    for nsu in ([nsv, nsv.replace(" ", "_"), nsv.replace(" ", "  "), nsv.replace(" ", "__"), nsv.replace(" ", "_ ")] if " " in nsv else [nsv]):
                        for sepk, sep in (SEPS.items() if nsname else [("plain", "")]):
                            for leadk, lead in LEADS.items():
                                for surk, (s1, s2) in SURROUND.items():
                                    title = s1 + lead + nsu + sep + rs + s2
                                    for d in self.defaultns:
                                        if not nsname and not lead and d != 0:
                                            exp = None  # unqualified title under a non-main default namespace: judged below
                                        else:
                                            exp = ref
                                        n += 1
                                        try:
                                            got = h.splitname(title, d)
                                        except Exception as e:
                                            bad("raises:%s" % type(e).__name__, "splitname(%r, %d) [%s] raised %r" % (title, d, lang, e))
                                            continue
                                        if exp is None:
                                            dl = si["namespaces"][str(d)]["*"]
                                            capd = (si["namespaces"][str(d)].get("case") or si["general"].get("case")) == "first-letter"
                                            pd = (tail[:1].upper() + tail[1:]) if capd and len(tail[:1].upper()) == 1 else tail
                                            exp = (d, pd, (dl + ":" if dl else "") + pd)
                                        if got != exp:
                                            feat = "sur=%s,lead=%s,sep=%s,case=%s,rem=%s" % (surk, leadk, sepk, cvk, rsk)
                                            kind = "ns" if got[0] != exp[0] else ("partial" if got[1] != exp[1] else "full")
                                            bad("spelling-%s:%s" % (kind, self.feature(surk, leadk, sepk, cvk, rsk)),
                                                "[%s] splitname(%r, %d) = %r, canonical is %r (%s)" % (lang, title, d, got, exp, feat))
                                            continue
                                        keys.add(got[2])
            # idempotence on the canonical name
            for d in self.defaultns:
                n += 2
                g1 = h.splitname(ref_full, 0) if True else None
                g2 = h.splitname(":" + ref_full, d)
                if nsid == 0:
                    ok1 = g1 == ref
                else:
                    ok1 = g1 == ref
                if not ok1:
                    bad("idempotence", "[%s] splitname(%r, 0) = %r, expected the canonical %r back" % (lang, ref_full, g1, ref))
                if g2 != ref:
                    bad("idempotence-colon", "[%s] splitname(%r, %d) = %r, expected %r" % (lang, ":" + ref_full, d, g2, ref))
                if cap and ref_partial[:1].upper() != ref_partial[:1] and len(ref_partial[:1].upper()) == 1:
                    bad("not-capitalised", "[%s] %r" % (lang, ref_partial))
        return {"key": keys, "steps": n, "viol": list(viol.values())}

    @staticmethod
    def feature(surk, leadk, sepk, cvk, rsk):
        """the first non-default spelling dimension – names the kind of spelling that is mishandled"""
        for nm, v, dflt in (("surround", surk, "none"), ("lead", leadk, "none"), ("sep", sepk, "plain"),
                            ("case", cvk, "asis"), ("remainder", rsk, "asis")):
            if v != dflt:
                return "%s=%s" % (nm, v)
        return "plain"

    def finish(self, agg):
        errs = []
        if len(agg["keys"]) < 100:
            errs.append("vacuous: %d distinct canonical names" % len(agg["keys"]))
        return {"splitname_calls": agg["steps"]}, errs


PROP = C12()
