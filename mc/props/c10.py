"""C10 – tokenization is lossless: tokens tile the input.

Space: every sequence of <=3 (quick) / <=4 (thorough) lexemes over SIGMA_S (one lexeme per re2c rule and per
hand-written cursor adjustment of _uscan.re), plus every sequence of <=5 / <=6 lexemes over the 12 lexemes that
take part in cursor rewinds (this replaces the statement's "randomly for longer ones": no sampling here).
Oracle: the tiling law itself (no reference model needed), on utoken.scan() and on the token stream utoken.tokenize() hands to the parser.
"""
from mc.core.runner import InputProp
from mc.core.space import Seqs, Concat, Product

EBAD = ""
UNIQ = "\x7fUNIQ-abc123-4-9f-QINU\x7f"

SIGMA_S = [
    "a", "\n", " ", "=", "==", "== ", "======", "=======", "=========", "======= ", "{|", "|}", "|-", "|", "||", "|!", "!!", "!", "|+", "|++", ":", ":{|",
    " :{|", ";", "*", "#", "----", "-", "''", "'", "'''", "[[", "]]", "[", "]", "http://a", "[http://a", "//a",
    "[//a", "mailto:a@b", "[mailto:a@b", "ftp://a", "irc://a", "news:a", "&amp;", "&#1;", "&#x1;", "&", "<b>",
    "</b>", "<b/>", "<", ">", "<!--c-->", "<!--", "__TOC__", "__", "_", "1", "\t", "\r", EBAD, "\U0001F600",
    "\0", UNIQ, "\x7fUNIQ-a", "\n\n", "\n \n", "https://", "é",
    "\ufeff",  # (wave 11: a byte order mark is an ordinary character, also as the very first one)
]

SIGMA_REWIND = ["\n", " ", "|", "|-", "|+", "!", "{|", "|}", "||", "|!", EBAD, "a"]


def check_tiling(text, toks):
    """Returns None if the tiling law holds, else a (sig, msg) pair."""
    nul = text.find("\0")
    limit = len(text) if nul < 0 else nul
    pos = 0
    for (i, t) in enumerate(toks):
        if not (isinstance(t, tuple) and len(t) == 3):
            return ("shape", "token %d is %r" % (i, t))
        typ, start, ln = t
        if ln <= 0:
            return ("empty-token", "token %d %r has length %d" % (i, t, ln))
        if start < pos:
            return ("overlap", "token %d %r starts before end %d of previous" % (i, t, pos))
        if start > pos:
            gap = text[pos:start]
            if gap.strip(EBAD):
                return ("gap", "chars %r at %d..%d not covered" % (gap, pos, start))
        if typ == 0:
            return ("end-token", "t_end token emitted: %r" % (t,))
        pos = start + ln
        if pos > limit:
            return ("overrun", "token %d %r runs past the end of the text/first NUL (%d)" % (i, t, limit))
    tail = text[pos:limit]
    if tail.strip(EBAD):
        return ("tail", "text %r at %d..%d not covered" % (tail, pos, limit))
    # concatenation of spans, with the dropped markers put back, reproduces the input up to limit
    out, pos = [], 0
    for (_, s, l) in toks:
        out.append(EBAD * (s - pos))
        out.append(text[s:s + l])
        pos = s + l
    out.append(EBAD * (limit - pos))
    recon = "".join(out)
    if recon != text[:limit]:
        return ("concat", "spans give %r, input is %r" % (recon, text[:limit]))
    return None


LONG_TOKENS = {
    "word": lambda n: "a" * n,
    "words": lambda n: ("ab " * (n // 3 + 1))[:n],
    "non-bmp": lambda n: "\U0001F600" * n,
    "comment": lambda n: "<!--" + "c" * (n - 7) + "-->",
    "tag-attrs": lambda n: "<div " + "-" * (n - 6) + ">",  # (a long run of word characters makes parse_params quadratic: 50 s at 70000)
    "url": lambda n: "http://x.y/" + "a" * (n - 11),
    "blank-lines": lambda n: "\n" * n,
    "spaces": lambda n: " " * n,
    "apostrophes": lambda n: "'" * n,
    "equals": lambda n: "\n" + "=" * n,
    "dashes": lambda n: "\n" + "-" * n,
    "colons": lambda n: "\n" + ":" * n,
    "entity": lambda n: "&" + "a" * (n - 2) + ";",
    "digits": lambda n: "1" * n,
}
LONG_SIZES = [255, 256, 257, 32767, 32768, 65535, 65536, 65537, 70000, 131072, 200000]


def _article_like(n):
    return ("== Heading %d ==\nSome ''text'' with [[links|and captions]], {{templates|x=1}} and <b>tags</b> &amp; entities.\n* item\n" * n)[:n * 100]


# pairs of different texts for the free-running two-thread pass (different lengths: a scan that reads the other thread's text ends early or late)
THREAD_TEXTS = {"article-58k/table-27k": (_article_like(580), ("{|\n|-\n| cell [[a]] || other ''cell''\n|}\n" * 700)[:27280]),
                "short/short": ("a [[b]] ''c''\n" * 20, "{|\n| x\n|}\n" * 9),
                "article-58k/article-30k": (_article_like(580), _article_like(300))}


class C10(InputProp):
    id = "C10"
    rule = ("every lexeme sequence over the scanner alphabet up to the stated length is scanned by the real "
            "_uscan extension (rebuilt from the working tree); non-trivial/distinct = distinct token-type sequences")
    assumptions = ("alphabet: one lexeme per re2c rule / cursor adjustment; inputs longer than the bound are not covered",)
    chunk = 40000
    soft_timeout = 20.0  # (CPU seconds of all threads: the free-running pass runs two threads for up to 4 s)

    def prepare(self, tier):
        from mwlib.parser.token import utoken
        self.scan = utoken.scan
        self.tokenize = utoken.tokenize
        # single tokens of every class around the sizes at which a narrower length field would wrap (2^8, 2^15, 2^16, 2^17)
        long_ = Product(sorted(LONG_TOKENS), LONG_SIZES if tier != "quick" else [s for s in LONG_SIZES if s <= 70000], ["alone", "between"], name="long")
        # the scanner releases the interpreter lock: a free-running pass with two OS threads inside it at once (rounds per pair)
        threads = Product(sorted(THREAD_TEXTS), [300 if tier == "quick" else 1000], name="threads")
        if tier == "quick":
            self.space = Concat(Seqs(SIGMA_S, 3, name="sigma"), Seqs(SIGMA_REWIND, 5, minlen=4, name="rewind"), long_, threads)
        else:
            self.space = Concat(Seqs(SIGMA_S, 4, name="sigma"), Seqs(SIGMA_REWIND, 7, minlen=5, name="rewind"), long_, threads)

    def text_of(self, case):
        fam, lex = case
        if fam == "threads":
            return ""
        if fam == "long":
            kind, n, where = lex
            t = LONG_TOKENS[kind](n)
            return t if where == "alone" else "a [[b]]\n" + t + "\n== h ==\n''c''"
        return "".join(lex)

    def run_threads(self, c):
        """Free-running pass (not an enumeration): the scanner releases the interpreter lock while it scans, so two OS threads can be
        inside it at once.  Each thread's tokens must be what a single-threaded scan of its text gives."""
        import threading
        pair, rounds = c
        texts = THREAD_TEXTS[pair]
        want = [self.scan(t) for t in texts]
        for t, w in zip(texts, want):
            bad = check_tiling(t, w)
            if bad:
                return {"key": ("threads", pair, "seq-bad"), "steps": 1, "viol": [{"sig": bad[0], "msg": bad[1][:300]}]}
        problems = []
        start = threading.Barrier(len(texts))

        done = [0] * len(texts)
        import time as _time

        def work(i):
            start.wait()
            stop_at = _time.time() + 4.0  # (well inside the per-case watchdog, however loaded the machine is)
            for r in range(rounds):
                if _time.time() > stop_at:
                    return
                done[i] += 1
                got = self.scan(texts[i])
                if got != want[i]:
                    problems.append((i, r, len(got), len(want[i])))
                    return
        ths = [threading.Thread(target=work, args=(i,)) for i in range(len(texts))]
        for th in ths:
            th.start()
        for th in ths:
            th.join()
        viol = []
        if problems:
            i, r, ng, nw = sorted(problems)[0]
            viol.append({"sig": "concurrent-scan-differs", "msg": "thread %d, round %d: scanning a %d-character text while another thread scans a different one gave %d tokens, "
                         "single-threaded it gives %d (texts %s)" % (i, r, len(texts[i]), ng, nw, pair)})
        return {"key": ("threads", pair, bool(viol)), "steps": sum(done), "viol": viol, "counters": {"free_running_thread_rounds": sum(done)}}

    def run_case(self, case):
        fam, lex = case
        if fam == "threads":
            return self.run_threads(lex)
        text = self.text_of(case)
        toks = self.scan(text)
        bad = check_tiling(text, toks)
        key = tuple(t[0] for t in toks)
        if bad:
            return {"key": key, "steps": len(toks), "viol": [{"sig": bad[0], "msg": bad[1][:300] + " input=%r tokens=%r" % (text[:80], toks[:8])}]}
        if text:
            # the token stream the parser consumes (CompatScanner splits/retags tokens but must keep the tiling)
            toks2 = [(t.type, t.start, t.len) for t in self.tokenize(text)]
            bad = check_tiling(text, toks2)
            if bad:
                return {"key": key, "steps": len(toks), "viol": [{"sig": "tokenize:" + bad[0], "msg": bad[1][:300] + " input=%r tokenize() spans=%r" % (text[:80], toks2[:8])}]}
        return {"key": key, "steps": len(toks)}

    def describe(self, case):
        if case[0] == "threads":
            return {"family": "threads", "texts": case[1][0], "rounds": case[1][1]}
        return {"family": case[0], "text": self.text_of(case)[:200], "case": case[1] if case[0] == "long" else None}

    def finish(self, agg):
        errs = []
        if len(agg["keys"]) < 500:
            errs.append("vacuous: only %d distinct token-type sequences" % len(agg["keys"]))
        return {"families": self.space.family_sizes(), "bound_completed": self.tier}, errs


PROP = C10()
