"""C08 – rendering is total and complete: every visible word reaches the output.

Space: collections built on disk the way the fetcher does (FsOutput.write_pages / dump_json / imageinfo + image files, then
zip_dir, then wiki.make_wiki(zip)): single articles B^1 and B^2 over an 18-entry block alphabet B (ordinary grammar blocks, a
template call resolved from the archive, thumbnail / inline / gallery / table-cell images stored in the archive, each use with
its own caption word), two-article books B x B x {no chapter, chapter}, three- and four-article books over all cyclic
selections of B.  Each collection goes through (a) the rl writer entry point, (b) the odf writer entry point and, for single
articles, (c) RlWriter(test_mode=True).write(tree) + renderElements.
Oracle: no exception / no 'Giving up'; the PDF opens with pypdf and the text of all pages contains every generated token;
the ODF package opens, content.xml / styles.xml parse, odflint reports nothing but its known mimetype note (tokens missing
from content.xml are counted, not judged: the statement does not ask the ODF output to be complete).
"""
import contextlib
import io
import os
import shutil
import sys
import tempfile
import zipfile

from mc.core.runner import InputProp, exc_signature
from mc.core.space import Space, Concat
from mc.gen import docgrammar as G

GRAMMAR_BLOCKS = ["p", "p-italic", "p-link-caption", "p-ref", "ul", "ol", "ul-ol", "dl", "table-2x2", "table-header", "pre"]
EXTRA_BLOCKS = ["h2+p", "h3+p", "tmpl", "img-thumb", "img-inline", "img-gallery", "img-cell", "img-big-thumb"]
B = GRAMMAR_BLOCKS + EXTRA_BLOCKS


def block_text(name, k):
    """-> (wikitext, [tokens]) for one block; k is the token generator of the whole collection"""
    if name in G.LIBMAP:
        blk = G.LIBMAP[name](k)
        return "\n".join(G.ser_block(blk, "plain")), G.tokens([blk])
    if name in ("h2+p", "h3+p"):
        t1, t2 = k(), k()
        eq = "==" if name == "h2+p" else "==="
        return "%s %s %s\n%s" % (eq, t1, eq, t2), [t1, t2]
    if name == "tmpl":
        t = k()
        return "{{T1|%s}}" % t, [t, "wtmpl"]
    if name == "img-thumb":
        t = k()
        return "[[File:I1.png|thumb|%s]]" % t, [t]
    if name == "img-big-thumb":
        t = k()
        return "[[File:I2.png|thumb|%s]]" % t, [t]
    if name == "img-inline":
        t = k()
        return "[[File:I1.png|30px]] %s" % t, [t]
    if name == "img-gallery":
        t = k()
        return "<gallery>\nFile:I1.png|%s\n</gallery>" % t, [t]
    if name == "img-cell":
        t, t2 = k(), k()
        return "{|\n| [[File:I1.png|40px]] || %s\n|-\n| %s || x\n|}" % (t, t2), [t, t2]
    raise ValueError(name)


class Collections(Space):
    """case: (articles, chapter_positions) – articles = tuple of tuples of block names"""
    name = "collections"

    def __init__(self, tier):
        cs = []
        for b in B:
            cs.append((((b,),), ()))
        for b1 in B:
            for b2 in B:
                cs.append((((b1, b2),), ()))
        for i, b1 in enumerate(B):
            for j, b2 in enumerate(B):
                if tier == "quick" and (i + 2 * j) % 3:
                    continue  # quick: one third of the ordered pairs (every block still meets every position); thorough: all
                cs.append((((b1,), (b2,)), ()))
                cs.append((((b1,), (b2,)), (0,)))
        n = len(B)
        for i in range(n):
            cs.append((((B[i],), (B[(i + 1) % n],), (B[(i + 2) % n],)), (0, 2)))
            cs.append((((B[i],), (B[(i + 3) % n],), (B[(i + 5) % n],), (B[(i + 7) % n],)), (1,)))
            cs.append((((B[i], B[(i + 1) % n]), (B[(i + 2) % n], B[(i + 4) % n]), (B[(i + 6) % n],)), (0, 1, 2)))
        # runs of figures followed by every kind of block (the writer lays out consecutive figures as a table of their own)
        figs = ("img-thumb", "img-big-thumb")
        for f1 in figs:
            for f2 in figs:
                for b3 in B:
                    cs.append((((f1, f2, b3),), ()))
                cs.append((((f1, f2, f1, "table-2x2", "p"),), ()))
        if tier != "quick":
            for b1 in B:
                for b2 in B:
                    for b3 in B:
                        if not (b1 in figs and b2 in figs):
                            cs.append((((b1, b2, b3),), ()))
        # page-boundary sweep: the same block group at every distance from the bottom of a page (k lead-in paragraphs)
        groups = ["thumb+paras"] if tier == "quick" else ["thumb+paras", "table-2x2", "ul-ol", "img-gallery", "pre", "dl"]
        for g in groups:
            for k in range(0, 48):
                cs.append(((("@boundary", g, k),), ()))
        self.cases = cs

    def __len__(self):
        return len(self.cases)

    def __getitem__(self, i):
        return self.cases[i]


class C08(InputProp):
    id = "C08"
    rule = ("every collection of the stated families is written to disk with the fetcher's FsOutput, zipped, re-opened with make_wiki and "
            "rendered by the rl writer, the odf writer and (single articles) the rl test mode; distinct = distinct (structure, outcome) classes")
    assumptions = ("ordinary content only, as the property states", "pdftk/pdfsam are absent here: merging the table of contents into the PDF degrades to its logged warning",
                   "tokens are <= 5 ASCII characters so line breaking cannot split them")
    chunk = 6
    soft_timeout = 120.0
    hard_timeout = 240.0
    budget_s = {"quick": 900.0, "thorough": 7200.0}

    def prepare(self, tier):
        from mwlib.network import fetch, siteinfo
        from mwlib.apps import buildzip
        from mwlib.core import metabook, wiki
        from mwlib.utils.status import Status
        from mwlib.writers.rl import writer as rlwriter
        from mwlib.writers.odf import writer as odfwriter
        from mwlib.parser import advtree
        self.m = dict(fetch=fetch, siteinfo=siteinfo, buildzip=buildzip, metabook=metabook, wiki=wiki, Status=Status,
                      rl=rlwriter, odf=odfwriter, advtree=advtree)
        Status.stdout = None  # (class attribute bound to the real stdout at import time)
        self.space = Collections(tier)
        self.png = None
        self.lint = None

    def get_png(self, big=False):
        if self.png is None:
            from PIL import Image
            self.png = {}
            for key, size in ((False, (60, 40)), (True, (1500, 900))):
                buf = io.BytesIO()
                Image.new("RGB", size, (200, 30, 30)).save(buf, "PNG")
                self.png[key] = buf.getvalue()
        return self.png[big]

    def odflint(self):
        if self.lint is None:
            mod = sys.__class__("odflint")
            argv = sys.argv[:]
            try:
                del sys.argv[1:]
                with contextlib.suppress(SystemExit), open("/venv/bin/odflint", "rb") as f, contextlib.redirect_stderr(io.StringIO()):
                    exec(compile(f.read(), "/venv/bin/odflint", "exec"), mod.__dict__)
            finally:
                sys.argv[:] = argv
            self.lint = mod
        return self.lint

    def build_collection(self, case, d):
        articles, chapters = case
        m = self.m
        k = G.Tok()
        fs = m["fetch"].FsOutput(os.path.join(d, "nuwiki"))
        fs.write_siteinfo(m["siteinfo"].get_siteinfo("en"))
        mb = m["metabook"].Collection()
        mb.title = "Book"
        tokens = []
        pages = {}
        for ai, blocks in enumerate(articles):
            if blocks and blocks[0] == "@boundary":
                _, group, nfill = blocks
                parts = []
                for i in range(nfill):
                    ws = [k() for _ in range(24)]
                    tokens.extend(ws)
                    parts.append(" ".join(ws))
                if group == "thumb+paras":
                    cap = k()
                    shorts = [[k() for _ in range(6)] for _ in range(3)]
                    longp = [k() for _ in range(140)]
                    tokens.append(cap)
                    for sp in shorts:
                        tokens.extend(sp)
                    tokens.extend(longp)
                    parts.append("[[File:I1.png|thumb|%s]]\n%s\n\n%s" % (cap, "\n\n".join(" ".join(sp) for sp in shorts), " ".join(longp)))
                else:
                    txt, toks = block_text(group, k)
                    parts.append(txt)
                    tokens.extend(toks)
                tail = [k() for _ in range(12)]
                tokens.extend(tail)
                parts.append(" ".join(tail))
                title = "Art%d" % (ai + 1)
                pages[title] = "\n\n".join(parts) + "\n"
                mb.append_article(title)
                continue
            if ai in chapters:
                ct = k()
                mb.items.append(m["metabook"].Chapter(title="Chapter " + ct))
                tokens.append(ct)
            title = "Art%d" % (ai + 1)
            parts = []
            for b in blocks:
                txt, toks = block_text(b, k)
                parts.append(txt)
                tokens.extend(toks)
            pages[title] = "\n\n".join(parts) + "\n"
            mb.append_article(title)
        fs.dump_json(metabook=mb)
        fs.nfo = {"format": "nuwiki", "base_url": "http://wiki.example/w/", "script_extension": ".php"}
        rid = 0
        for t, txt in list(pages.items()) + [("Template:T1", "wtmpl {{{1}}}"), ("File:I1.png", "image description"), ("File:I2.png", "big image")]:
            rid += 1
            ns = 10 if t.startswith("Template:") else 6 if t.startswith("File:") else 0
            fs.write_pages({"pages": {"1": {"title": t, "ns": ns, "revisions": [{"revid": rid, "*": txt}]}}})
        for nm, big, (wd, ht) in (("I1", False, (60, 40)), ("I2", True, (1500, 900))):
            with open(fs.get_imagepath("File:%s.png" % nm), "wb") as f:
                f.write(self.get_png(big))
            fs.set_db_key("imageinfo", "File:%s.png" % nm, {"url": "http://wiki.example/images/%s.png" % nm,
                                                          "descriptionurl": "http://wiki.example/wiki/File:%s.png" % nm,
                                                          "width": wd, "height": ht, "thumburl": "http://wiki.example/images/thumb/%s.png" % nm})
        fs.write_redirects({})
        fs.write_licenses([])
        fs.write_authors()
        fs.write_html()
        fs.imageinfo.close()
        fs.close()
        zp = m["buildzip"].zip_dir(os.path.join(d, "nuwiki"), os.path.join(d, "c.zip"))
        return zp, tokens, pages

    def describe(self, case):
        return {"articles": case[0], "chapters_before_article": case[1]}

    def run_case(self, case):
        m = self.m
        d = tempfile.mkdtemp(prefix="c08-")
        viol = []
        outcome = []
        odf_missing = 0
        old_cwd = os.getcwd()
        try:
            with contextlib.redirect_stdout(io.StringIO()), contextlib.redirect_stderr(io.StringIO()):
                zp, tokens, pages = self.build_collection(case, d)
                shape = "|".join("+".join(map(str, a)) for a in case[0])
                # (a) rl writer entry point
                env = m["wiki"].make_wiki(zp)
                out = os.path.join(d, "book.pdf")
                try:
                    m["rl"].writer(env, output=out, status_callback=m["Status"](None))
                    import pypdf
                    txt = "".join(p.extract_text() or "" for p in pypdf.PdfReader(out).pages)
                    missing = [t for t in tokens if t not in txt]
                    if missing:
                        viol.append({"sig": "rl-missing-text|%s" % self.where(case, tokens, missing[0]),
                                     "msg": "PDF of %s lacks %r" % (shape, missing)})
                    outcome.append(("rl", "ok", bool(missing)))
                except Exception as e:
                    viol.append({"sig": "rl-raises:" + exc_signature(e), "msg": "rl writer on %s raised %s: %s" % (shape, type(e).__name__, str(e)[:300])})
                    outcome.append(("rl", type(e).__name__))
                finally:
                    with contextlib.suppress(Exception):
                        env.images.clear()
                # (b) odf writer entry point
                env = m["wiki"].make_wiki(zp)
                out = os.path.join(d, "book.odt")
                try:
                    m["odf"].writer(env, output=out, status_callback=m["Status"](None))
                    z = zipfile.ZipFile(out)
                    from lxml import etree
                    content = z.read("content.xml")
                    etree.fromstring(content)
                    etree.fromstring(z.read("styles.xml"))
                    ctext = content.decode("utf-8")
                    missing = [t for t in tokens if t not in ctext]
                    # (the statement asks the ODF package to be well-formed and lint-clean, not to be complete: tokens missing
                    #  from content.xml are counted in the evidence, they are not violations)
                    odf_missing = len(missing)
                    so = io.StringIO()
                    with contextlib.redirect_stdout(so), contextlib.redirect_stderr(so):
                        self.odflint().lint(out)
                    rep = so.getvalue()
                    lines = [l for l in rep.splitlines() if l.strip() and "mimetype" not in l]
                    if lines:
                        viol.append({"sig": "odf-lint|%s" % self.lintclass(lines[0]), "msg": "odflint on %s: %s" % (shape, "; ".join(lines[:3])[:300])})
                    outcome.append(("odf", "ok", bool(missing), len(lines)))
                except Exception as e:
                    viol.append({"sig": "odf-raises:" + exc_signature(e), "msg": "odf writer on %s raised %s: %s" % (shape, type(e).__name__, str(e)[:300])})
                    outcome.append(("odf", type(e).__name__))
                finally:
                    with contextlib.suppress(Exception):
                        env.images.clear()
                # (c) single-article test mode
                if len(case[0]) == 1 and case[0][0][0] != "@boundary":
                    env = m["wiki"].make_wiki(zp)
                    try:
                        art = env.wiki.get_parsed_article("Art1")
                        m["advtree"].build_advanced_tree(art)
                        w = m["rl"].RlWriter(env, test_mode=True)
                        w.img_db = env.images
                        elements = w.write(art)
                        os.chdir(d)
                        w.renderElements(elements, filename=os.path.join(d, "single.pdf")) if hasattr(w, "renderElements") else None
                        outcome.append(("rl-test", "ok"))
                    except Exception as e:
                        viol.append({"sig": "rl-testmode-raises:" + exc_signature(e), "msg": "RlWriter(test_mode=True) on %s raised %s: %s" % (shape, type(e).__name__, str(e)[:300])})
                        outcome.append(("rl-test", type(e).__name__))
                    finally:
                        os.chdir(old_cwd)
                        with contextlib.suppress(Exception):
                            env.images.clear()
        finally:
            os.chdir(old_cwd)
            shutil.rmtree(d, ignore_errors=True)
        return {"key": (tuple(len(a) for a in case[0]), tuple(outcome)), "steps": 3, "viol": viol,
                "counters": {"collections": 1, "articles": len(case[0]), "odf_tokens_not_in_content_xml": odf_missing}}

    @staticmethod
    def lintclass(line):
        import re
        return re.sub(r"[^A-Za-z: -]", "", line)[:50].strip().replace(" ", "-")

    def where(self, case, tokens, tok):
        """name of the block that generated the token"""
        if case[0] and case[0][0] and case[0][0][0] == "@boundary":
            return "boundary:%s" % case[0][0][1]
        k = G.Tok()
        for ai, blocks in enumerate(case[0]):
            if ai in case[1]:
                if k() == tok:
                    return "chapter-title"
            for b in blocks:
                _, toks = block_text(b, k)
                if tok in toks:
                    return b
        return "?"

    def finish(self, agg):
        errs = []
        if len(agg["keys"]) < 3:
            errs.append("vacuous: %d distinct outcomes" % len(agg["keys"]))
        return {"block_alphabet": B}, errs


PROP = C08()
