"""C03 – template expansion always terminates with a string, whatever templates contain.

Families:
  magic    every registered function name (MagicResolver attributes, '#'-parser functions, dummy resolvers, magic_nodes.registry,
           and every alias of those names in the magicwords of all 12 bundled sites) x argument count 0..2 (quick) / 0..3 (thorough,
           reduced shape list for count 3) x 28 argument shapes, colon form and pipe form
  cycles   all universes of <=2 (quick) / <=3 (thorough) templates whose bodies are sequences of <=2 call/parameter items: every call
           graph incl. self loops and 2-/3-cycles
  syntax   every string over the 24-symbol template alphabet up to length 4 (quick) / 5 (thorough)
Oracle: a str comes back; no exception; CPU <= 13 units per expansion (a unit = what 5000 plain template calls cost in the same process
at the same moment; 13 units = 2 s on the idle sandbox); len(output) <= 64 x (len(page) + sum len(templates)) + 4096.
"""
import time

from mc.core.runner import InputProp, exc_signature
from mc.core.space import Seqs, Product, Concat, Items, Space
from mc.props.c01 import LangDB

SHAPES = ["", "a", " a ", "0", "1", "-1", "1.5", "1e3", "99999999", "99999999999999999999", "a/b/c", "../x", "{{PAGENAME}}",
          "{{{1}}}", "a=b", "<b>", "9^9^9^9", "1e999999999", "2^0.5^-1", "1/0", "5 round -99999999", "xrY", "5000-01-01",
          # text shapes that make a careless pattern backtrack: long white-space / repeated-token runs inside a tag or attribute
          '<span class="' + " " * 40 + 'x">t</span>', '<div class="error' + " \t" * 20 + 'y">t</div>', "<strong " + "a " * 40 + ">t", "&" + "amp" * 40, "[[" + "a|" * 40]
LONG_RUNS = {"blanks": " ", "tabs": "\t", "underscores": "_", "colons": ":", "slashes": "/", "newlines": "\n"}
SHAPES3 = ["", "a", "1", "99999999", "a=b"]
SIGMA_T = ["{{", "}}", "{{{", "}}}", "{", "}", "|", "=", ":", "#if:", "#switch:", "a", " ", "\n", "[[", "]]", "<noinclude>",
           "</noinclude>", "<includeonly>", "</includeonly>", "<onlyinclude>", "</onlyinclude>", "<nowiki>", "</nowiki>"]
CYCLE_ITEMS = ["w", "{{{1}}}", "{{{1|{{A}}}}}", "{{A}}", "{{B}}", "{{C}}", "{{A|{{B}}}}", "{{#if:{{{1|}}}|{{A}}|{{B}}}}", "{{missing}}"]
# calls routed through the branches of every conditional parser function (fan-out 2), and an argument that doubles per level
CYCLE_ITEMS_X = CYCLE_ITEMS + ["{{#ifexpr:1|{{A}}{{A}}}}", "{{#ifexpr:0|x|{{A}}{{B}}}}", "{{#ifeq:a|a|{{A}}{{A}}}}", "{{#switch:a|a={{A}}{{A}}}}",
                               "{{#iferror:{{A}}|{{A}}|{{A}}{{B}}}}", "{{#if:x|{{A}}{{A}}}}", "{{A|{{{1}}}{{{1}}}}}", "{{#ifexist:A|{{A}}{{A}}}}"]
NEST_OPENERS = [("{{lc:", "}}"), ("{{a|", "}}"), ("{{{", "}}}"), ("{{{1|", "}}}"), ("{{#if:", "}}"), ("{{#if:x|", "}}"), ("{{#expr:", "}}"), ("{{a|1=", "}}"),
                ("{{#switch:", "}}"), ("{{#ifeq:a|a|", "}}"), ("{{T|", "}}"), ("{{", "}}"), ("[[", "]]"), ("<noinclude>", "</noinclude>"),
                ("{{#tag:ref|", "}}"), ("{{#iferror:", "}}")]
NEST_DEPTHS = [5, 40, 150, 400, 1500, 5000]
EXPR_OPERANDS = ["2", "7", "400", "1e400", "999999999", "0.5", "-1"]
EXPR_OPS = ["^", "*", "e", "+", "mod", "round", "/"]
LANGS = ["en", "de", "es", "fr", "it", "ja", "nl", "no", "pl", "pt", "simple", "sv"]


def function_names():
    from mwlib.parser.templ import magics, magic_nodes
    names = set()
    for k in dir(magics.MagicResolver):
        if k.startswith("_"):
            continue
        if k.upper() == k or k.startswith("#"):
            names.add(k.lower())
    for k in magic_nodes.registry:
        names.add(k.lower())
    names.update(["#if", "#ifeq", "#switch", "#ifexpr", "#iferror", "#ifexist", "#expr", "#time", "#tag", "#titleparts", "#language", "#rel2abs"])
    return sorted(names)


def site_aliases(builtin):
    """(lang, alias) for every alias of a built-in name in the magicwords of the bundled sites"""
    from mwlib.network.siteinfo import get_siteinfo
    out = []
    b = set(builtin) | set(n.lstrip("#") for n in builtin)
    for lang in LANGS:
        si = get_siteinfo(lang)
        for mw in si.get("magicwords", []):
            if mw["name"].lower() in b or ("#" + mw["name"].lower()) in b:
                for al in mw.get("aliases", []):
                    a = al.rstrip(":")
                    if a and a.lower() not in b:
                        out.append((lang, a))
    return out


class ArgTuples(Space):
    """argument tuples: count 0..maxcount over SHAPES (count 3 over SHAPES3), shortest first"""
    name = "args"

    def __init__(self, maxcount):
        self.parts = [Seqs(SHAPES, min(maxcount, 2))]
        if maxcount >= 3:
            self.parts.append(Seqs(SHAPES3, 3, minlen=3))
        self.n = sum(len(p) for p in self.parts)

    def __len__(self):
        return self.n

    def __getitem__(self, i):
        for p in self.parts:
            if i < len(p):
                return p[i]
            i -= len(p)
        raise IndexError


class C03(InputProp):
    id = "C03"
    rule = ("families magic/alias/cycles/syntax (see mc/props/c03.py), each enumerated completely on Expander(text, pagename, wikidb)."
            "expandTemplates(); distinct = distinct (family, outcome text) classes")
    assumptions = ("argument shapes are a fixed list of 28 (5 for the third argument)",
                   "the 'out of proportion' clause is judged as: CPU <= the cost of 65000 plain template calls measured in the same process at the same moment (2 s on the idle sandbox; best of up to 3 runs) and output <= 64 x input + 4096 characters per expansion")
    chunk = 2000
    soft_timeout = 20.0
    hard_timeout = 60.0
    budget_s = {"quick": 900.0, "thorough": 7200.0}

    def prepare(self, tier):
        from mwlib.parser.expander import Expander
        from mwlib.utils.uniq import Uniquifier
        Uniquifier.random_string = "0123456789abcdef"
        self.Expander = Expander
        names = function_names()
        self.names = names
        aliases = site_aliases(names)
        maxc = 2 if tier == "quick" else 3
        fams = [Product(names, ArgTuples(maxc), ["colon", "pipe"], name="magic"),
                Product(Items(aliases), ArgTuples(1 if tier == "quick" else 2), ["colon", "pipe"], name="alias")]
        bodies = Seqs(CYCLE_ITEMS, 2, minlen=1)
        fams.append(Product(Seqs(CYCLE_ITEMS_X, 2, minlen=1), Seqs(CYCLE_ITEMS_X, 1, minlen=1), ["{{A}}", "{{A|x}}"], name="cyclesx"))
        if tier == "quick":
            fams.append(Product(bodies, bodies, [b for b in ["{{A}}", "{{A|x}}", "{{B|{{A}}}}"]], name="cycles2"))
            fams.append(Seqs(SIGMA_T, 4, name="syntax"))
        else:
            small = Seqs(CYCLE_ITEMS, 2, minlen=1)
            one = Seqs(CYCLE_ITEMS[1:], 1, minlen=1)
            fams.append(Product(bodies, bodies, ["{{A}}", "{{A|x}}", "{{B|{{A}}}}"], name="cycles2"))
            fams.append(Product(small, one, one, ["{{A}}", "{{C|x}}"], name="cycles3"))
            fams.append(Seqs(SIGMA_T, 5, name="syntax"))
        # fan-out through every function: A = {{f<sep>...{{A}}...}} twice, page {{A}} - the recursion limit must bound the work whichever
        # function (and whichever argument position, colon or pipe form) the recursive calls are routed through
        fams.append(Product(names, ["colon", "pipe"], [0, 1, 2], name="fanout"))
        fams.append(Product(sorted(self.OVERFLOWS), [2, 3, 5], name="same-expander"))
        # one long argument (30000 characters) made of a run of one separator-like character between two letters: work must stay
        # in proportion to the size of the argument (a quadratic pattern needs seconds here)
        fams.append(Product(names, sorted(LONG_RUNS), name="longarg"))
        # acyclic universes that multiply: t_i includes t_(i+1) f times, n levels deep (f^n inclusions from n short templates)
        fams.append(Product([2, 3], [4, 8, 12, 16, 20, 30, 45] if tier != "quick" else [4, 12, 20, 45], ["plain", "via-arg", "via-if"], name="multiply"))
        # every function nested in its own k-th argument (an argument that is expanded twice doubles the work per level)
        fams.append(Product(names, [0, 1, 2], [12, 25] if tier == "quick" else [12, 25, 40], name="selfnest"))
        # nesting depth: every opener of the template language nested n times (closed and left open)
        fams.append(Product(NEST_OPENERS, NEST_DEPTHS if tier != "quick" else NEST_DEPTHS[:4], ["closed", "open"], name="nest"))
        # operator chains of #expr / #ifexpr over operands chosen to grow (a chain is what multiplies, one operand never does)
        chain = 2 if tier == "quick" else 3
        fams.append(Product(EXPR_OPERANDS, Seqs([(o, x) for o in EXPR_OPS for x in EXPR_OPERANDS], chain, minlen=1), ["#expr", "#ifexpr"], name="exprchain"))
        if tier == "quick":
            grow = [(o, x) for o in ("^", "e", "*") for x in ("400", "1e400", "7")]
            fams.append(Product(["7", "1e400"], Seqs(grow, 4, minlen=3), ["#expr"], name="exprchain"))
        self.space = Concat(*fams)
        self.dbs = {}

    def db(self, lang, pages=None):
        key = (lang, tuple(sorted(pages.items())) if pages else None)
        if key not in self.dbs:
            if len(self.dbs) > 500:
                self.dbs.clear()
            self.dbs[key] = LangDB(lang, pages or {"T": "{{{1}}}", "A": "a{{{1|}}}"})
        return self.dbs[key]

    def build(self, case):
        fam, c = case
        if fam == "magic":
            name, args, form = c
            return self.call(name, args, form), self.db("en"), 0
        if fam == "alias":
            (lang, name), args, form = c
            return self.call(name, args, form), self.db(lang), 0
        if fam in ("cycles2", "cyclesx"):
            a, b, page = c
            pages = {"A": "".join(a), "B": "".join(b)}
            return page, self.db("en", pages), sum(map(len, pages.values()))
        if fam == "cycles3":
            a, b, cc, page = c
            pages = {"A": "".join(a), "B": "".join(b), "C": "".join(cc)}
            return page, self.db("en", pages), sum(map(len, pages.values()))
        if fam == "syntax":
            return "".join(c), self.db("en"), 20
        if fam == "longarg":
            return "{{%s:a%sb}}" % (c[0], LONG_RUNS[c[1]] * 30000), self.db("en"), 0
        if fam == "fanout":
            name, form, pos = c
            args = ["x"] * pos + ["{{A}}"]
            body = self.call(name, args, form) * 2
            return "{{A}}b", self.db("en", {"A": body}), len(body)
        if fam == "multiply":
            f, n, how = c
            call = {"plain": "{{t%d}}", "via-arg": "{{E|{{t%d}}}}", "via-if": "{{#if:x|{{t%d}}}}"}[how]
            pages = {"t%d" % i: (call % (i + 1)) * f for i in range(n)}
            pages["t%d" % n] = "x"
            pages["E"] = "{{{1}}}"
            return "{{t0}}", self.db("en", pages), sum(map(len, pages.values())) + 65536 * 8  # (the output may reach the inclusion limit)
        if fam == "selfnest":
            name, pos, depth = c
            text = "x"
            for _ in range(depth):
                args = ["a"] * pos + [text]
                text = "{{%s:%s}}" % (name, "|".join(args))
            return text, self.db("en"), 0
        if fam == "nest":
            (o, cl), n, closed = c
            return o * n + "x" + (cl * n if closed == "closed" else ""), self.db("en"), 0
        if fam == "exprchain":
            first, rest, fn = c
            e = first + "".join(" %s %s" % (o, x) for o, x in rest)
            return ("{{#expr:%s}}" % e) if fn == "#expr" else ("{{#ifexpr:%s|y|n}}" % e), self.db("en"), 0
        raise ValueError(fam)

    @staticmethod
    def call(name, args, form):
        if not args:
            return "{{%s}}" % name
        if form == "colon":
            return "{{%s:%s}}" % (name, "|".join(args))
        return "{{%s|%s}}" % (name, "|".join(args))

    def describe(self, case):
        if case[0] == "same-expander":
            return {"family": case[0], "shape": case[1][0], "expansions_on_one_expander": case[1][1], "text": self.OVERFLOWS[case[1][0]][0][:80]}
        return {"family": case[0], "text": self.build(case)[0]}

    # pages whose expansion runs into the recursion limit or the argument size limit (both are unwound to the outermost call)
    OVERFLOWS = {"self-loop": ("a{{L}}b", {"L": "x{{L}}y"}), "mutual-loop": ("3{{P}}4", {"P": "p{{Q}}", "Q": "q{{P}}"}),
                 "loop-in-arg": ("a{{T|{{L}}}}b", {"L": "{{L}}", "T": "[{{{1}}}]"}), "big-argument": ("a{{T|" + "x" * 300000 + "}}b", {"T": "[{{{1}}}]"})}

    def run_same_expander(self, c):
        """ONE expander expands several texts one after the other (the parser does that for the body of every <ref>, <poem>,
        <gallery>): every overflow must be handled like the first one"""
        shape, n = c
        text, pages = self.OVERFLOWS[shape]
        te = self.Expander("", pagename="Test page", wikidb=self.db("en", pages))
        outs = []
        for i in range(n):
            try:
                outs.append(te.parseAndExpand(text))
            except Exception as e:
                return {"key": ("same-expander", shape, "exc"), "steps": i + 1,
                        "viol": [{"sig": "same-expander:" + exc_signature(e), "msg": "expansion #%d of %r on one Expander raised %s: %s (the earlier ones returned %r)" % (
                            i + 1, text[:60], type(e).__name__, str(e)[:100], [o[:30] for o in outs])}]}
        viol = []
        if any(o != outs[0] for o in outs):
            viol.append({"sig": "same-expander:results-differ", "msg": "%d expansions of %r on one Expander gave %r" % (n, text[:60], [o[:40] for o in outs])})
        return {"key": ("same-expander", shape, outs[0][:40]), "steps": n, "viol": viol}

    def run_case(self, case):
        if case[0] == "same-expander":
            return self.run_same_expander(case[1])
        text, db, extra = self.build(case)
        try:
            res, dt = self.timed_expand(text, db)
        except Exception as e:
            return {"key": "exc", "viol": [{"sig": exc_signature(e), "msg": "expanding %r raised %s: %s" % (text[:200], type(e).__name__, str(e)[:200])}]}
        viol = []
        if not isinstance(res, str):
            viol.append({"sig": "not-a-string", "msg": "expanding %r returned %r" % (text[:200], type(res))})
            return {"key": "nonstr", "viol": viol}
        limit = 64 * (len(text) + extra) + 4096
        if len(res) > limit:
            viol.append({"sig": "output-out-of-proportion:" + self.fname(case), "msg": "expanding %r (%d chars) produced %d characters" % (text[:200], len(text), len(res))})
        counters = None
        if dt > self.CPU_TRIGGER_S:
            units, runs = self.cpu_in_units(text, db, dt)
            counters = {"cpu_measured_in_units": 1, "cpu_reruns": runs - 1}
            if units > self.CPU_LIMIT_UNITS:
                viol.append({"sig": "cpu-out-of-proportion:" + self.fname(case), "msg": "expanding %r took %.1f s CPU = %.0f x the cost of %d plain template calls, in the best of %d runs (limit %d x)" % (
                    text[:200], dt, units, self.UNIT_CALLS, runs, self.CPU_LIMIT_UNITS)})
        return {"key": (case[0], res[:60]), "steps": 1, "viol": viol, "counters": counters}

    # The CPU clause is judged in units of work, not in seconds: one unit is the CPU time that expanding a page of UNIT_CALLS plain
    # template calls takes in this process at this moment (0.155 s on the idle sandbox), and one expansion may cost CPU_LIMIT_UNITS of
    # them (13 units = 65000 plain calls: 2 s on the idle sandbox).  Seconds alone are not a property of the code: the same expansion
    # was seen to take 0.85 s in one run and more than 2 s of process CPU time in another (a freshly restored, busy machine).
    # A case is looked at when it takes more than CPU_TRIGGER_S; it is a violation when it costs more than the limit in EVERY one of up
    # to three runs, each divided by the unit measured right before and after it.
    UNIT_CALLS = 5000
    CPU_LIMIT_UNITS = 13
    CPU_TRIGGER_S = 0.5

    def timed_expand(self, text, db):
        t0 = time.process_time()
        res = self.Expander(text, pagename="Test page/sub", wikidb=db).expandTemplates()
        return res, time.process_time() - t0

    def cpu_unit(self):
        best = None
        for _ in range(2):
            dt = self.timed_expand("{{T|x}} " * self.UNIT_CALLS, self.db("en"))[1]
            best = dt if best is None else min(best, dt)
        return max(best, 1e-4)

    def cpu_in_units(self, text, db, dt):
        """-> (cost of the expansion in units: the smallest of the runs made, number of runs)"""
        after = self.cpu_unit()
        best, runs = dt / after, 1
        # (a run that took several seconds is not repeated twice inside the watchdog: the fresh-process replays repeat it)
        while best > self.CPU_LIMIT_UNITS and runs < 3 and dt * (3 - runs) < 8.0:
            before = after
            try:
                dt = self.timed_expand(text, db)[1]
            except Exception:
                break  # (judged by the first run, which returned)
            after = self.cpu_unit()
            best, runs = min(best, dt / ((before + after) / 2)), runs + 1
        return best, runs

    def fname(self, case):
        fam, c = case
        if fam == "longarg":
            return "%s:long-%s" % (c[0], c[1])
        if fam == "magic":
            return c[0]
        if fam == "alias":
            return c[0][1]
        return fam

    def timeout_violation(self, case):
        text = self.build(case)[0]
        return [{"sig": "hang:" + self.fname(case), "msg": "expanding %r did not return within %ss" % (text[:200], self.soft_timeout)}]

    def finish(self, agg):
        errs = []
        if len(agg["keys"]) < 500:
            errs.append("vacuous: %d distinct outcomes" % len(agg["keys"]))
        return {"families": self.space.family_sizes(), "function_names": len(self.names)}, errs


PROP = C03()
