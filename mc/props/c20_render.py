"""C20 producer: the real mw-render command (apps.render.main, rl writer) on a one-article archive, writing a PDF
and a status file into the sandbox."""
import io
import json
import os
import tempfile

from mc.props.c20 import Producer

OLD_PDF = b"%PDF-1.4\n% previous complete document\n%%EOF\n"
_zip = {}


def archive():
    if "p" not in _zip or not os.path.exists(_zip["p"]):
        from mwlib.network import fetch, siteinfo
        from mwlib.apps import buildzip
        from mwlib.core import metabook
        d = tempfile.mkdtemp(prefix="c20-arch-")
        fs = fetch.FsOutput(os.path.join(d, "nuwiki"))
        fs.write_siteinfo(siteinfo.get_siteinfo("en"))
        mb = metabook.Collection()
        mb.append_article("A")
        fs.dump_json(metabook=mb)
        fs.nfo = {"format": "nuwiki", "base_url": "http://wiki.example/w/", "script_extension": ".php"}
        fs.write_pages({"pages": {"1": {"title": "A", "ns": 0, "revisions": [
            {"revid": 1, "*": "Hello wxyz world.\n\n== H ==\nmore text\n\n* item one\n* item two\n"}]}}})
        fs.write_redirects({})
        fs.write_licenses([])
        fs.write_authors()
        fs.write_html()
        fs.imageinfo.close()
        fs.close()
        _zip["p"] = buildzip.zip_dir(os.path.join(d, "nuwiki"), os.path.join(d, "c.zip"))
    return _zip["p"]


class RenderProducer(Producer):
    name = "render"

    def prepare(self, sbx, previous):
        self.zip = archive()
        os.makedirs(os.path.join(sbx, "out"))
        if previous:
            with open(os.path.join(sbx, "out", "book.pdf"), "wb") as f:
                f.write(OLD_PDF)
            with open(os.path.join(sbx, "out", "status.json"), "w") as f:
                json.dump({"status": "previous", "progress": 100}, f)

    def run(self, sbx):
        from mwlib.apps import render
        render.init_tmp_cleaner = lambda: None
        render.main.main(["-c", self.zip, "-o", os.path.join(sbx, "out", "book.pdf"), "-w", "rl",
                          "-s", os.path.join(sbx, "out", "status.json")], standalone_mode=False)

    def judge(self, sbx, previous):
        p = os.path.join(sbx, "out", "book.pdf")
        if os.path.exists(p):
            raw = open(p, "rb").read()
            if not (previous and raw == OLD_PDF):
                if not raw.rstrip().endswith(b"%%EOF"):
                    return "rendered document is truncated (%d bytes, no %%%%EOF)" % len(raw)
                try:
                    import pypdf
                    r = pypdf.PdfReader(io.BytesIO(raw))
                    if len(r.pages) < 1:
                        return "rendered document has no pages"
                    if "wxyz" not in "".join(pg.extract_text() for pg in r.pages):
                        return "rendered document lacks the article text"
                except Exception as e:
                    return "rendered document does not open: %s: %s" % (type(e).__name__, e)
        elif previous:
            return "rendered document vanished although a previous version existed"
        s = os.path.join(sbx, "out", "status.json")
        if os.path.exists(s):
            try:
                d = json.loads(open(s, "rb").read())
                if not isinstance(d, dict):
                    return "status file is not a JSON object"
            except ValueError:
                return "status file does not parse as JSON"
        return None
