"""C02 – well-formed markup parses to the structure it denotes, text intact and in order.

Space: every document of the grammar G (mc/gen/docgrammar.py) with <=2 blocks from a 38-entry block library (quick: plus all 3-block documents over a 16-entry core library; thorough: all 3-block documents over the full library), in 4 spelling variants,
and the one-block documents in all 12 bundled site languages.
Oracle – denotation equality after parse_string + build_advanced_tree: the wNN tokens found equal the generated ones, each exactly
once and in source order, and every token's structural ancestor chain (sections, lists, items, definition term/description,
table/row/cell/caption, preformatted, reference: ordered; styles and link targets: as a set) equals the chain the AST denotes.
"""
from mc.core.runner import InputProp, exc_signature
from mc.core.space import Concat, Product, Items
from mc.gen import docgrammar as G
from mc.gen import docextract as X
from mc.props.c01 import LangDB

LANGS = ["en", "de", "es", "fr", "it", "ja", "nl", "no", "pl", "pt", "simple", "sv"]
CORE = ["h2", "h3", "p", "p-italic", "p-link-caption", "p-ref", "ul", "ol", "ul-ol", "dl", "table-2x2", "table-header", "table-caption",
        "table-list", "pre", "p-bold-in-italic"]
INLINE_PREFIXES = ("Emphasized", "Strong", "Underline", "Strike", "Small", "Sup", "Sub", "Big", "Code", "Teletyped", "ArticleLink:", "NamedURL:",
                   "URL:", "NamespaceLink:", "InterwikiLink:", "CategoryLink:", "ImageLink:", "LangLink:", "Link:", "SpecialLink:", "Cite",
                   "Overline", "Deleted", "Inserted", "Var")


def split_chain(chain):
    """-> (ordered structural labels, frozenset of inline labels); the DefinitionList wrapper only exists after cleaning"""
    struct, inline = [], set()
    for l in chain:
        if l == "DefinitionList":
            continue
        if l.startswith(INLINE_PREFIXES):
            inline.add(l)
        else:
            struct.append(l)
    return tuple(struct), frozenset(inline)


def compare(got, want):
    """-> list of (kind, token, detail) mismatches"""
    out = []
    gt, wt = [t for t, _ in got], [t for t, _ in want]
    if gt != wt:
        missing = [t for t in wt if t not in gt]
        dup = sorted(set(t for t in gt if gt.count(t) > 1))
        extra = [t for t in gt if t not in wt]
        if missing:
            out.append(("lost", missing[0], "tokens %r are not in the tree" % missing))
        if dup:
            out.append(("duplicated", dup[0], "tokens %r occur more than once" % dup))
        if extra:
            out.append(("extra", extra[0], "unexpected tokens %r" % extra))
        if not (missing or dup or extra):
            out.append(("reordered", gt[0], "tree order %r, source order %r" % (gt, wt)))
        return out
    for (t, gc), (_, wc) in zip(got, want):
        if split_chain(gc) != split_chain(wc):
            out.append(("chain", t, "token %s sits under %r, its markup denotes %r" % (t, list(gc), list(wc)), wc))
    return out


class C02(InputProp):
    id = "C02"
    rule = ("every document of grammar G up to the block bound x 4 spelling variants (+ 12 languages for one-block documents); denotation "
            "equality of (token, ancestor chain) lists; distinct = distinct observed chain lists")
    assumptions = ("the order among inline ancestors (styles, link) is not compared, only their set (mwlib documents no nesting order for styles)",
                   "Paragraph wrappers, generic Nodes and the DefinitionList wrapper (built by the cleaner) are not part of the chain")
    chunk = 400
    soft_timeout = 20.0

    def prepare(self, tier):
        from mwlib.parser.refine import uparser
        from mwlib.parser import advtree
        from mwlib.utils.uniq import Uniquifier
        Uniquifier.random_string = "0123456789abcdef"
        self.parse = uparser.parse_string
        self.advtree = advtree
        self.dbs = {l: LangDB(l, {}) for l in LANGS}
        fams = [Product(["en"], G.DocSpace(2, name="g2", variants=G.VARIANTS if tier != "quick" else ["plain", "html", "compact", "tight"]), name="docs"),
                Product(LANGS[1:], G.DocSpace(1, name="g1", variants=["plain", "compact"]), name="langs")]
        if tier == "quick":
            fams.append(Product(["en"], G.DocSpace(3, name="g3", names=CORE, variants=["plain", "tight"]), name="docs3"))
        else:
            fams.append(Product(["en"], G.DocSpace(3, name="g3", variants=G.VARIANTS), name="docs3"))
        fams.append(Product(["en", "de"], G.HeadingSpace(4 if tier == "quick" else 5, levels=(1, 2, 3, 4) if tier == "quick" else (1, 2, 3, 4, 5)), name="headings"))
        self.space = Concat(*fams)

    def describe(self, case):
        fam, (lang, (names, variant)) = case
        return {"lang": lang, "blocks": names, "variant": variant, "wikitext": G.render((names, variant))}

    def run_case(self, case):
        fam, (lang, (names, variant)) = case
        doc = G.build(names)
        text = G.render(doc, variant)
        try:
            tree = self.parse(title="Test", raw=text, wikidb=self.dbs[lang], lang=lang)
            self.advtree.build_advanced_tree(tree)
        except Exception as e:
            return {"key": "exc", "viol": [{"sig": "raises:" + exc_signature(e), "msg": "%r raised %r" % (text, e)}]}
        got = X.extract(tree)
        want = G.denote(doc)
        viol = []
        # nothing visible is invented either: the documents consist of tokens and markup only, so every Text node is made of
        # tokens and white space (markup that leaks into the text - a stray "|+", "''", "==" - shows here)
        extra = X.TOKEN.sub("", "".join(n.caption or "" for n in tree.allchildren() if type(n).__name__ == "Text"))
        extra = "".join(extra.split())
        want_extra = G.extras(doc)
        if extra != want_extra:
            viol.append({"sig": "%s|%s|%s" % ("invented-text" if len(extra) >= len(want_extra) else "lost-text",
                                               names[-1] if len(names) == 1 else "+".join(sorted(set(names)))[:60], variant),
                         "msg": "[%s] besides the tokens the tree shows %r, the document has %r; wikitext %r" % (lang, extra[:40], want_extra[:40], text)})
        for mm in compare(got, want):
            kind, tok, detail = mm[0], mm[1], mm[2]
            # which block the token belongs to, and whether that block ends the text
            bi = self.block_of(doc, tok)
            where = "last" if bi == len(doc) - 1 else "inner"
            inner = ""
            if kind == "chain":
                st = split_chain(mm[3])[0]
                inner = st[-1] if st else "top"
            sig = "%s|%s|%s|%s|%s" % (kind, names[bi] if bi is not None else "?", inner, variant, where)
            viol.append({"sig": sig, "msg": "[%s] %s; wikitext %r" % (lang, detail, text)})
        return {"key": tuple((t, split_chain(c)) for t, c in got), "steps": len(got), "viol": viol[:3]}

    @staticmethod
    def block_of(doc, tok):
        for i, b in enumerate(doc):
            if tok in G.tokens([b] if b[0] != "h" else [b]):
                return i
        return None

    def finish(self, agg):
        errs = []
        if len(agg["keys"]) < 200:
            errs.append("vacuous: %d distinct chain lists" % len(agg["keys"]))
        return {"families": self.space.family_sizes(), "block_library": len(G.LIBNAMES)}, errs


PROP = C02()
