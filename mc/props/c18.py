"""C18 – saving and restoring the queue preserves every job."""
from mc.props import qs_explore as X
from mc.props.c16 import RULE, ASSUME, EXT_OPS, make_cfg, narrow_cfg


class C18:
    id = "C18"
    families = ("C16", "C17")

    def main(self, tier, seed, gate=True):
        cfg, cap = make_cfg(tier, EXT_OPS, maxrestarts=2)
        # ids: anonymous adds (server-assigned ids), error finishes (10 s ttl), the watchdog that forgets expired jobs, restarts
        ids = narrow_cfg(tier, {"addanon", "pull", "finish", "wd"}, workers=("w1",), finish_kinds=("err",), maxjobs=3, maxpoll=1,
                         bound=16 if tier == "quick" else 20, maxrestarts=2, probe=False)
        # client-chosen (string) and server-assigned (integer) ids side by side, as nserve's named jobs and anonymous adds produce
        mixed = narrow_cfg(tier, {"add", "addanon", "pull", "finish", "kill", "eof"}, workers=("w1", "w2"), finish_kinds=("ok", "err"), maxjobs=3,
                           bound=9 if tier == "quick" else 12, maxrestarts=1)
        # jobs with different timeouts, the longer one queued first: every deadline still holds after a restart
        deadlines = narrow_cfg(tier, {"add", "pull", "tick", "wait", "finish"}, workers=("w1",), timeouts=(100.0, 10.0, 50.0), maxjobs=3,
                               bound=8 if tier == "quick" else 10, maxrestarts=1)
        # jobs finished with results that are falsy in Python (0, '', [], {}, false): they are results, not "no result"
        falsy = narrow_cfg(tier, {"add", "pull", "finish", "wait"}, workers=("w1",), finish_kinds=("zero", "emptystr", "emptylist", "emptydict", "false"),
                           maxjobs=2, bound=9 if tier == "quick" else 11, maxrestarts=1)
        return X.search_phases(self.id, [("wide", cfg, cap), ("ids-deep", ids, 60 if tier == "quick" else 600),
                                         ("falsy-results", falsy, 60 if tier == "quick" else 300),
                                         ("mixed-ids", mixed, 60 if tier == "quick" else 600),
                                         ("deadlines", deadlines, 60 if tier == "quick" else 300)], tier, seed, self.families,
                               post_restart_only=True,
                               rule=RULE + "; the save/restore step (Main.savedb -> pickle file -> Main.loaddb in a fresh Main, all connections gone) is enabled in every quiescent state and exploration continues after it with the C16/C17 oracles armed; only violations that arise after a restart are reported here",
                               assumptions=ASSUME + ("the server is stopped between event-loop iterations (quiescent), as KeyboardInterrupt in serve_forever does",),
                               gate=gate)

    def replay(self, record):
        return X.replay_history(record, self.families, make_cfg("quick", EXT_OPS, 2)[0], post_restart_only=True)


PROP = C18()
