"""C18 – saving and restoring the queue preserves every job."""
from mc.props import qs_explore as X
from mc.props.c16 import RULE, ASSUME, EXT_OPS, make_cfg, narrow_cfg

import itertools
import pickle


# (wave 11) qdrop only marks a job "forget it once a waiter has collected it": until somebody waits, a marked job is an ordinary
# job and a restart must keep it.  Exhaustive over short histories on the REAL workq inside the REAL db object, saved and
# restored the way Main.savedb/loaddb do (pickle protocol 2); reference: a plain dict per job id.
DROP_OPS = ("add", "drop", "ok", "err", "kill")


def drop_events(jids):
    return [(op, j) for j in jids for op in DROP_OPS] + [("restart", None)]


def run_drop_history(hist):
    """returns None or (sig, message)"""
    from qs import qserve
    d = qserve.db()
    model = {}
    for i, (op, j) in enumerate(hist):
        wq = d.workq
        m = model.get(j)
        try:
            if op == "add":
                wq.push(channel="render", payload={"p": 1}, jobid=j)
                if m is None or m["error"] == "killed":
                    model[j] = {"done": False, "result": None, "error": None}
            elif op == "drop":
                wq.dropjobs([j])
            elif op in ("ok", "err"):
                kw = {"result": {"r": str(j)}} if op == "ok" else {"error": "boom"}
                if m is None:
                    try:
                        wq.finishjob(j, **kw)
                        return ("drop-hist:finish-unknown", "finishjob of an id that was never added did not raise (step %d)" % i)
                    except KeyError:
                        pass
                else:
                    wq.finishjob(j, **kw)
                    if not m["done"]:
                        m.update(done=True, **kw)
            elif op == "kill":
                wq.killjobs([j])
                if m is not None and not m["done"]:
                    m.update(done=True, error="killed")
            elif op == "restart":
                d = pickle.loads(pickle.dumps(d, 2))
        except Exception as exc:
            return ("drop-hist:raises:%s" % type(exc).__name__, "step %d %r raised %r" % (i, (op, j), exc))
        for jid, mm in model.items():
            job = d.workq.id2job.get(jid)
            if job is None:
                return ("drop-hist:job-gone", "after step %d %r job %r is gone (nobody waited for it); model %r" % (i, (op, j), jid, mm))
            got = {"done": bool(job.done), "result": job.result, "error": job.error}
            if got != mm:
                return ("drop-hist:job-differs", "after step %d %r job %r is %r, reference %r" % (i, (op, j), jid, got, mm))
            if job.done != job.finish_event.is_set():
                return ("drop-hist:event", "after step %d %r job %r: done=%r but finish event set=%r" % (i, (op, j), jid, job.done, job.finish_event.is_set()))
    return None


def check_drop_histories(tier):
    spaces = [(("j1",), 6 if tier == "quick" else 8), (("j1", 7), 4 if tier == "quick" else 5)]
    n = 0
    bad = {}
    for jids, depth in spaces:
        evs = drop_events(jids)
        for L in range(1, depth + 1):
            for hist in itertools.product(evs, repeat=L):
                n += 1
                r = run_drop_history(hist)
                if r and r[0] not in bad:
                    bad[r[0]] = (list(hist), r[1])   # (shortest first: the first of a signature is a shortest one)
    return n, bad


class C18:
    id = "C18"
    families = ("C16", "C17")

    def main(self, tier, seed, gate=True):
        cfg, cap = make_cfg(tier, EXT_OPS, maxrestarts=2)
        # ids: anonymous adds (server-assigned ids), error finishes (10 s ttl), the watchdog that forgets expired jobs, restarts
        ids = narrow_cfg(tier, {"addanon", "pull", "finish", "wd"}, workers=("w1",), finish_kinds=("err",), maxjobs=3, maxpoll=1,
                         bound=16 if tier == "quick" else 20, maxrestarts=2, probe=False)
        # client-chosen (string) and server-assigned (integer) ids side by side, as nserve's named jobs and anonymous adds produce
        mixed = narrow_cfg(tier, {"add", "addanon", "pull", "finish", "kill", "eof"}, workers=("w1", "w2"), finish_kinds=("ok", "err"), maxjobs=3,
                           bound=9 if tier == "quick" else 12, maxrestarts=1)
        # jobs with different timeouts, the longer one queued first: every deadline still holds after a restart
        deadlines = narrow_cfg(tier, {"add", "pull", "tick", "wait", "finish"}, workers=("w1",), timeouts=(100.0, 10.0, 50.0), maxjobs=3,
                               bound=8 if tier == "quick" else 10, maxrestarts=1)
        # jobs finished with results that are falsy in Python (0, '', [], {}, false): they are results, not "no result"
        falsy = narrow_cfg(tier, {"add", "pull", "finish", "wait"}, workers=("w1",), finish_kinds=("zero", "emptystr", "emptylist", "emptydict", "false"),
                           maxjobs=2, bound=9 if tier == "quick" else 11, maxrestarts=1)
        import time as _t
        t0 = _t.time()
        ndrop, dropbad = check_drop_histories(tier)
        extra = {"drop_flag_histories": ndrop, "drop_flag_alphabet": [list(map(str, e)) for e in drop_events(("j1", 7))],
                 "drop_flag_depths": "1 id: %d, 2 ids: %d" % ((6, 4) if tier == "quick" else (8, 5)), "drop_flag_wall_s": round(_t.time() - t0, 1)}
        pre = [(sig, {"case": {"drop_history": [[op, j] for op, j in hist]}, "msg": msg, "idx": len(hist)}) for sig, (hist, msg) in sorted(dropbad.items())]
        return X.search_phases(self.id, [("wide", cfg, cap), ("ids-deep", ids, 60 if tier == "quick" else 600),
                                         ("falsy-results", falsy, 60 if tier == "quick" else 300),
                                         ("mixed-ids", mixed, 60 if tier == "quick" else 600),
                                         ("deadlines", deadlines, 60 if tier == "quick" else 300)], tier, seed, self.families,
                               post_restart_only=True,
                               rule=RULE + "; the save/restore step (Main.savedb -> pickle file -> Main.loaddb in a fresh Main, all connections gone) is enabled in every quiescent state and exploration continues after it with the C16/C17 oracles armed; only violations that arise after a restart are reported here",
                               assumptions=ASSUME + ("the server is stopped between event-loop iterations (quiescent), as KeyboardInterrupt in serve_forever does",),
                               gate=gate, extra_cov=extra, pre_violations=pre)

    def replay(self, record):
        if "drop_history" in record["case"]:
            r = run_drop_history([(op, j) for op, j in record["case"]["drop_history"]])
            return {"violated": bool(r), "sig": r[0] if r else None, "msg": r[1] if r else None, "all_sigs": [r[0]] if r else []}
        return X.replay_history(record, self.families, make_cfg("quick", EXT_OPS, 2)[0], post_restart_only=True)


PROP = C18()
