"""Shared exploration for C05 (trees stay well-formed) and C06 (every cleaning pass completes).

A transition system whose states are trees and whose transitions are the entries of TreeCleaner.cleaner_methods in order,
started from every enumerated initial tree (parse + build_advanced_tree of each enumerated input).  C05's invariant is
evaluated in every state, C06's progress conditions on every transition.
"""
import io
import contextlib

from mc.core.runner import InputProp, exc_signature, stable_hash
from mc.core.space import Seqs, Product, Concat, Items
from mc.gen import wikitext as W
from mc.gen.cleantriggers import SIGMA_CLEAN
from mc.props.c01 import LangDB

FIXPOINT_PASSES = ("fix_nesting", "fix_paragraphs", "remove_breaking_returns")

# line breaks at every position of every inline wrapper inside every block container (remove_breaking_returns works towards
# a fixed point over exactly these shapes)
BR_OUTER = {"none": "%s\n", "div": "<div>%s</div>\n", "div-div": "<div><div>%s</div></div>\n", "center": "<center>%s</center>\n",
            "cell": "{|\n| %s\n|}\n", "li": "* %s\n", "blockquote": "<blockquote>%s</blockquote>\n", "dd": ": %s\n"}
BR_INLINE = {"none": "%s", "span": "<span>%s</span>", "i": "<i>%s</i>", "b-span": "<b><span>%s</span></b>", "quote": "''%s''"}
BR_PATTERN = ["<br/>x", "<br/><br/>x", "x<br/>", "x<br/><br/>", "<br/><br/><br/>", "a<br/><br/>b", "<br/>x<br/><br/>", "<br/><br/><br/>x<br/>y"]
BR_AROUND = {"alone": "%s", "between": "intro\n\n%s\noutro\n"}

# malformed HTML lists: content that is not an <li> at every position of the list (fix_item_lists wraps it)
STRAY = ["text", "<br/>", "text<br/>more", "<br/>text", "<b>bold</b>", "<div>d</div>", "<br/><br/>", "<span><br/></span>x", "[[Link]]", "<ref>r</ref>"]
STRAY_LIST = {"ul": "<ul>%s</ul>\n", "ol": "<ol>%s</ol>\n", "ul-in-cell": "{|\n| <ul>%s</ul>\n|}\n", "nested": "<ul><li>o<ul>%s</ul></li></ul>\n",
              # a list that sits in a list without an <li> around it / inside another non-<li> child
              "ul-in-ul": "<ul><ul>%s</ul></ul>\n", "ul-in-ol-after-li": "<ol><li>a</li><ul>%s</ul></ol>\n",
              "ol-in-div-in-ul": "<ul><li>a</li><div><ol>%s</ol></div></ul>\n"}
STRAY_POS = {"first": "%s<li>a</li><li>b</li>", "between": "<li>a</li>%s<li>b</li>", "last": "<li>a</li><li>b</li>%s", "only": "%s",
             "between-and-last": "<li>a</li>%s<li>b</li>%s"}

# deep nesting (C01's nest/pump families reach these depths) inside the shapes whose repair copies or moves whole subtrees
DEEP_SHAPES = {"plain": "%s\n", "indent-table": ":{|\n|a||%s\n|}\n", "pre-list": " a <ul><li>%s</li></ul>\n", "cell": "{|\n| %s\n|}\n",
               "dl-gallery": ";t\n:<gallery>\nFile:A.png|%s\n</gallery>\n", "ref": "a<ref>%s</ref>\n",
               "center-table": "<center>\n{|\n| %s\n|}\n</center>\n", "image-caption": "[[File:A.png|thumb|%s]]\n"}
DEEP_WRAP = {"div": ("<div>", "</div>"), "span": ("<span>", "</span>"), "bi": ("<b><i>", "</i></b>"), "ul": ("<ul><li>", "</li></ul>"),
             "small": ("<small>", "</small>"), "table": ("<table><tr><td>", "</td></tr></table>")}
DEEP_DEPTHS = [8, 60, 150, 220]


def tree_hash(root):
    out = []
    stack = [root]
    while stack:
        n = stack.pop()
        if n is None:
            out.append(")")
            continue
        out.append(type(n).__name__)
        cap = getattr(n, "caption", None)
        if isinstance(cap, str):
            out.append(cap)
        t = getattr(n, "target", None)
        if isinstance(t, str):
            out.append(t)
        # plain attributes set by the passes that only mark nodes (vlist, isInfobox, short paragraph flags, colspan ...)
        for k in sorted(getattr(n, "__dict__", ())):
            if k in ("parent", "children", "caption", "target") or k.startswith("_"):
                continue
            v = n.__dict__[k]
            if isinstance(v, (str, int, float, bool, dict, type(None))):
                out.append("%s=%r" % (k, v))
        out.append("(")
        stack.append(None)
        stack.extend(reversed(n.children))
    return stable_hash("\x00".join(out))


def tree_depth(root):
    depth, level = 0, [root]
    while level and depth < 5000:
        depth += 1
        level = [c for n in level for c in n.children]
    return depth


def validate(root, final=False):
    """own validator (not advtree's), iterative so that the depth of the tree is no limit: returns list of (sig, msg)"""
    problems = []
    seen = set()
    onpath = set()
    # explicit stack of (node, parent, state): state 0 = enter, 1 = leave
    stack = [(root, None, 0)]
    while stack:
        node, parent, state = stack.pop()
        i = id(node)
        if state == 1:
            onpath.discard(i)
            if final:
                ch = node.children
                nm = type(node).__name__
                kids = [type(c).__name__ for c in ch]
                if nm == "Table":
                    bad = [k for k in kids if k not in ("Row", "Caption")]
                    if bad:
                        problems.append(("contract:Table>" + bad[0], "Table contains %s" % bad[0]))
                elif nm == "Row":
                    bad = [k for k in kids if k != "Cell"]
                    if bad:
                        problems.append(("contract:Row>" + bad[0], "Row contains %s" % bad[0]))
                elif nm == "ItemList":
                    bad = [k for k in kids if k != "Item"]
                    if bad:
                        problems.append(("contract:ItemList>" + bad[0], "ItemList contains %s" % bad[0]))
                pn = type(parent).__name__ if parent is not None else None
                if nm == "Cell" and pn != "Row":
                    problems.append(("contract:Cell<" + str(pn), "Cell directly under %s" % pn))
                if nm == "Row" and pn != "Table":
                    problems.append(("contract:Row<" + str(pn), "Row directly under %s" % pn))
                if nm == "Item" and pn != "ItemList":
                    problems.append(("contract:Item<" + str(pn), "Item directly under %s" % pn))
            continue
        if i in onpath:
            problems.append(("cycle", "%s is its own ancestor" % type(node).__name__))
            continue
        if i in seen:
            problems.append(("node-shared", "%s occurs twice in the tree (second time under %s)" % (type(node).__name__, type(parent).__name__)))
            continue
        seen.add(i)
        if len(seen) > 2000000:
            problems.append(("too-big", "more than 2e6 nodes"))
            break
        ch = getattr(node, "children", None)
        if not isinstance(ch, list):
            problems.append(("children-type", "%s.children is %s" % (type(node).__name__, type(ch).__name__)))
            continue
        p = getattr(node, "parent", None)
        if parent is None:
            if p is not None:
                problems.append(("root-parent", "root has parent %s" % type(p).__name__))
        elif p is not parent:
            problems.append(("parent-link", "%s listed under %s has parent %s" % (
                type(node).__name__, type(parent).__name__, type(p).__name__ if p is not None else None)))
        if type(node).__name__ == "Text" and ch:
            problems.append(("text-children", "Text node has %d children" % len(ch)))
        onpath.add(i)
        stack.append((node, parent, 1))
        for c in reversed(ch):
            if not hasattr(c, "children"):
                problems.append(("children-type", "%s has a %s child" % (type(node).__name__, type(c).__name__)))
                continue
            stack.append((c, node, 0))
    return problems


# whole books, cleaned in one go as the ODF writer does (TreeCleaner(book).clean_all()): articles that end up empty next to
# articles that need repair; judged against the same articles cleaned in one-article books
BOOK_ARTS = {"empty": "", "p": "para one\n\npara two\n", "badlist": "<ul><li>a</li>text<li>b</li></ul>\n", "br-only": "<br/>\n",
             "noprint-only": '<div class="noprint">x</div>\n', "nested-table": "{|\n|\n{|\n| a || b\n|}\n|}\n"}
BOOK_LAYOUTS = ["flat", "chapter-each", "chapter-first"]


class CleanExplore(InputProp):
    chunk = 300
    soft_timeout = 30.0
    hard_timeout = 90.0
    budget_s = {"quick": 1800.0, "thorough": 7200.0}
    which = "C05"

    def prepare(self, tier):
        from mwlib.parser.refine import uparser
        from mwlib.parser import advtree, treecleaner
        from mwlib.utils.uniq import Uniquifier
        Uniquifier.random_string = "0123456789abcdef"
        self.parse = uparser.parse_string
        self.advtree = advtree
        self.treecleaner = treecleaner
        self.methods = list(treecleaner.TreeCleaner.cleaner_methods)
        self.db = LangDB("en", W.template_universe("{{{1}}}"))
        clean_names = [c[0] for c in SIGMA_CLEAN]
        self.clean = dict(SIGMA_CLEAN)
        core = W.SIGMA_CORE
        fams = [Seqs(clean_names, 1, minlen=1, name="clean1"),
                Seqs(W.SIGMA, 1, minlen=1, name="sigma1"),
                Seqs(core, 2, minlen=2, name="core2"),
                Product([c[0] for c in W.CTX], core, name="ctx-core")]
        try:
            from mc.gen import docgrammar
            fams.append(docgrammar.space(tier, name="grammar"))
        except ImportError:
            pass
        fams.append(Product(sorted(BR_AROUND), sorted(BR_OUTER), sorted(BR_INLINE), BR_PATTERN, name="brwrap"))
        fams.append(Product(sorted(STRAY_LIST), sorted(STRAY_POS), STRAY, name="listwrap"))
        fams.append(Product(sorted(DEEP_SHAPES), sorted(DEEP_WRAP), DEEP_DEPTHS, name="deep"))
        # cleaner histories: ONE TreeCleaner (as the PDF writer keeps one) cleans article A completely, then article B pass by pass
        hsub = clean_names[::10] if tier == "quick" else clean_names[::3]
        fams.append(Product(clean_names, hsub, name="history-ab"))
        fams.append(Product(hsub, clean_names, name="history-ba"))
        # volume: ONE cleaner repairs 260 paragraphs in a first article and 260 in a second one (a budget or counter that lives as
        # long as the cleaner is met here); the article is not part of the trigger alphabet - it costs seconds per case
        self.clean["many-li-h2-p"] = "<ul>" + "".join("<li><h2>H%d</h2><p>para %d</p></li>" % (i, i) for i in range(260)) + "</ul>\n"
        fams.append(Product(["many-li-h2-p"], ["many-li-h2-p"], name="history-ab"))
        fams.append(Product(BOOK_LAYOUTS, Seqs(sorted(BOOK_ARTS), 3, minlen=1), name="book"))
        fams.append(Seqs(clean_names, 2, minlen=2, name="clean2"))
        fams.append(Product(clean_names, [c[0] for c in W.CTX], name="clean-ctx"))
        if tier != "quick":
            fams.append(Product([c[0] for c in W.CTX], W.SIGMA, name="ctx-sigma"))
            fams.append(Seqs(core, 3, minlen=3, name="core3"))
            fams.append(Product(clean_names, clean_names[::3], clean_names[::5], name="clean3"))
        self.space = Concat(*fams)
        self.ctx = dict(W.CTX)

    def build(self, case):
        fam, c = case
        if fam in ("clean1", "clean2", "clean3"):
            return "".join(self.clean[n] for n in c)
        if fam in ("sigma1", "core2", "core3"):
            return "".join(c)
        if fam == "ctx-core" or fam == "ctx-sigma":
            return self.ctx[c[0]] % c[1]
        if fam == "clean-ctx":
            return self.ctx[c[1]] % self.clean[c[0]]
        if fam == "listwrap":
            inner = STRAY_POS[c[1]]
            return STRAY_LIST[c[0]] % (inner.replace("%s", c[2]))
        if fam.startswith("history"):
            return self.clean[c[1]]
        if fam == "deep":
            o, cl = DEEP_WRAP[c[1]]
            n = c[2] // 4 if c[1] == "table" else c[2]  # (a table level is four tree levels; nested tables get slow beyond ~60)
            return DEEP_SHAPES[c[0]] % (o * n + "x" + cl * n)
        if fam == "brwrap":
            return BR_AROUND[c[0]] % (BR_OUTER[c[1]] % (BR_INLINE[c[2]] % c[3]))
        if fam == "grammar":
            from mc.gen import docgrammar
            return docgrammar.render(c)
        if fam == "book":
            return "\n--- next article ---\n".join(BOOK_ARTS[a] for a in c[1])
        raise ValueError(fam)

    def describe(self, case):
        return {"family": case[0], "case": case[1], "text": self.build(case)[:200]}

    def make_book(self, layout, names):
        from mwlib.parser.nodes import Book, Chapter
        book = Book()
        holder = book
        for i, a in enumerate(names):
            if layout == "chapter-each" or (layout == "chapter-first" and i == 0):
                holder = Chapter("Chapter %d" % i)
                book.append_child(holder)
            art = self.parse(title="Page %d" % i, raw=BOOK_ARTS[a], wikidb=self.db, lang="en")
            holder.append_child(art)
        self.advtree.build_advanced_tree(book)
        return book

    def run_book(self, case):
        layout, names = case[1]
        v5, v6 = [], []
        shape = "%s:%s" % (layout, "+".join(names))
        with contextlib.redirect_stdout(io.StringIO()), contextlib.redirect_stderr(io.StringIO()):
            try:
                book = self.make_book(layout, names)
            except Exception as e:
                v5.append({"sig": "build_advanced_tree:" + exc_signature(e), "msg": "building the book %s raised %r" % (shape, e)})
                return self.result("book-failed", v5, v6, {})
            tc = self.treecleaner.TreeCleaner(book, save_reports=True)
            try:
                tc.clean_all()
            except Exception as e:
                v6.append({"sig": "clean_all:" + exc_signature(e), "msg": "clean_all on the book %s raised %r" % (shape, e)})
                return self.result("book-raised", v5, v6, {})
            errs = [r for r in tc.get_reports() if "ERROR" in str(r)]
            if errs:
                v6.append({"sig": "clean_all-swallowed-error|book", "msg": "clean_all() on the book %s reports %r" % (shape, errs[:2])})
            for sig, msg in validate(book, final=True)[:3]:
                v5.append({"sig": sig + "|book", "msg": "%s after the full cleaning sequence on the book %s" % (msg, shape)})
            # differential: every article of the book as it comes out of a book of its own
            # (an article left without content is dropped from a book unless it is the only one: compared are those with content)
            got = [tree_hash(a) for a in book.get_all_children() if type(a).__name__ == "Article" and a.children]
            want = []
            for i, a in enumerate(names):
                one = self.make_book("flat", [a])
                one.children[0].caption = "Page %d" % i
                self.treecleaner.TreeCleaner(one, save_reports=True).clean_all()
                want.extend(tree_hash(x) for x in one.children if type(x).__name__ == "Article" and x.children)
            if got != want and not v6:
                v6.append({"sig": "book:article-cleaned-differently", "msg": "the articles of the book %s do not come out as they do from one-article books (%d of %d differ or are missing)"
                           % (shape, sum(1 for g, w in zip(got, want) if g != w) + abs(len(got) - len(want)), len(want))})
        return self.result(tree_hash(book), v5, v6, {"books": 1}, len(self.methods))

    def run_case(self, case):
        if case[0] == "book":
            return self.run_book(case)
        text = self.build(case)
        v5, v6 = [], []
        counters = {}
        with contextlib.redirect_stdout(io.StringIO()), contextlib.redirect_stderr(io.StringIO()):
            try:
                tree = self.parse(title="Test page", raw=text, wikidb=self.db, lang="en")
            except Exception as e:
                return {"key": "parse-failed", "counters": {"parse_failed": 1}}  # C01's business
            try:
                self.advtree.build_advanced_tree(tree)
            except Exception as e:
                v5.append({"sig": "build_advanced_tree:" + exc_signature(e), "msg": "build_advanced_tree raised %r on %r" % (e, text[:200])})
                return self.result("advtree-failed", v5, v6, counters)
            for sig, msg in validate(tree):
                v5.append({"sig": "after-advtree:" + sig, "msg": "%s after build_advanced_tree on %r" % (msg, text[:200])})
            if v5:
                return self.result("advtree-invalid", v5, v6, counters)
            tc = self.treecleaner.TreeCleaner(tree, save_reports=True)
            if case[0].startswith("history"):
                try:
                    pre = self.parse(title="Earlier page", raw=self.clean[case[1][0]], wikidb=self.db, lang="en")
                    self.advtree.build_advanced_tree(pre)
                    tc = self.treecleaner.TreeCleaner(pre, save_reports=True)
                    tc.clean_all()
                    tc.tree = tree
                except Exception as e:
                    v6.append({"sig": "clean_all:" + exc_signature(e), "msg": "clean_all raised %r on %r" % (e, self.clean[case[1][0]][:200])})
            h = tree_hash(tree)
            steps = 1
            deep_tag = "|tree-depth>=150" if tree_depth(tree) >= 150 else ""
            for name in self.methods:
                steps += 1
                raised = False
                try:
                    getattr(tc, name)(tree)
                except Exception as e:
                    # (the cleaner's own clean() logs the error and goes on with the next pass: so does the exploration, and the
                    # tree the failed pass leaves behind is still subject to C05)
                    raised = True
                    sg = "pass:%s:%s" % (name, exc_signature(e)) + deep_tag
                    if not any(v["sig"] == sg for v in v6):
                        v6.append({"sig": sg, "msg": "cleaning pass %s raised %s: %s on %r" % (name, type(e).__name__, str(e)[:150], text[:200])})
                h2 = tree_hash(tree)
                if h2 != h:
                    counters["changed:" + name] = 1
                h = h2
                probs = validate(tree)
                if probs:
                    for sig, msg in probs[:3]:
                        v5.append({"sig": "after-%s:%s" % (name, sig), "msg": "%s after pass %s on %r" % (msg, name, text[:200])})
                    break
                if name in FIXPOINT_PASSES and not raised:
                    try:
                        getattr(tc, name)(tree)
                    except Exception as e:
                        v6.append({"sig": "pass:%s:%s" % (name, exc_signature(e)), "msg": "second application of %s raised %r on %r" % (name, e, text[:200])})
                        break
                    h3 = tree_hash(tree)
                    if h3 != h:
                        v6.append({"sig": "no-fixpoint:" + name, "msg": "%s changes the tree again when applied a second time on %r" % (name, text[:200])})
                        h = h3
            else:
                for sig, msg in validate(tree, final=True):
                    if sig.startswith("contract:"):
                        fam, c = case
                        origin = fam + (":" + "/".join(map(str, c)) if fam.startswith("clean") else "")
                        v5.append({"sig": sig + "|" + origin, "msg": "%s after the full cleaning sequence on %r" % (msg, text[:200])})
            # the path the writers use: clean_all with its catch-all must not have swallowed an error
            if not v6:
                try:
                    tree2 = self.parse(title="Test page", raw=text, wikidb=self.db, lang="en")
                    self.advtree.build_advanced_tree(tree2)
                    tc2 = self.treecleaner.TreeCleaner(tree2, save_reports=True)
                    tc2.clean_all()
                    errs = [r for r in tc2.get_reports() if "ERROR" in str(r)]
                    if errs:
                        v6.append({"sig": "clean_all-swallowed-error", "msg": "clean_all() reports %r on %r" % (errs[:2], text[:200])})
                except Exception as e:
                    v6.append({"sig": "clean_all:" + exc_signature(e), "msg": "clean_all raised %r on %r" % (e, text[:200])})
        return self.result(h, v5, v6, counters, steps)

    def result(self, key, v5, v6, counters, steps=1):
        viol = v5 if self.which == "C05" else v6
        other = v6 if self.which == "C05" else v5
        if other:
            counters["other_property_violations"] = len(other)
        return {"key": key, "steps": steps, "viol": viol, "counters": counters}

    def timeout_violation(self, case):
        if self.which == "C06":
            return [{"sig": "hang", "msg": "cleaning did not finish within %ss on %r" % (self.soft_timeout, self.build(case)[:200])}]
        return []

    def finish(self, agg):
        errs = []
        never = [m for m in set(self.methods) if not agg["counters"].get("changed:" + m)]
        if len(agg["keys"]) < 200:
            errs.append("vacuous: %d distinct final trees" % len(agg["keys"]))
        return {"families": self.space.family_sizes(), "passes": len(self.methods),
                "passes_that_never_changed_a_tree": sorted(never),
                "inputs_on_which_pass_changed_tree": {k[8:]: v for k, v in agg["counters"].items() if k.startswith("changed:")}}, errs
