"""C09 – opaque tags stay opaque: nowiki/pre/math/source/syntaxhighlight/timeline bodies are never interpreted.

Space: 6 tags x 18 embedding contexts x every body in SIGMA_B^<=2 (quick) / ^<=3 (thorough) that does not contain the tag's own
closing tag.  Oracles: (1) the text the tag contributes to the tree, read between two sentinels, is exactly the body
(character entities decoded for nowiki/pre only); (2) the tree has exactly the node structure it has when the body is a plain
word – nothing inside the body created a node; (3) Uniquifier.replace_uniq(replace_tags(s)) == s.
"""
import re

from mc.core.runner import InputProp, exc_signature
from mc.core.space import Seqs, Product, Concat
from mc.props.c01 import LangDB

TAGS = ["nowiki", "pre", "math", "source", "syntaxhighlight", "timeline"]
SIGMA_B = ["a", " ", "''", "'''", "[[a]]", "[[", "]]", "{{T}}", "{{{1}}}", "}}", "{{", "|", "||", "=", "<b>", "</b>", "<!-- c -->", "<!--",
           "&amp;", "&#65;", "\n* ", "\n== h ==\n", "\n ", "\n{|", "\n|}", "<nowiki>", "</nowiki>", "<pre>", "<ref>", "<noinclude>",
           "</noinclude>", "<includeonly>", "<onlyinclude>", "<br/>", "</div>", "__TOC__", "http://x", "~~~~", "\n\n", "<math>",
           # entity-escaped markup (how help pages document the tags), stray ampersands, other entity spellings
           "&lt;nowiki&gt;", "&lt;/nowiki&gt;", "&lt;b&gt;", "&#60;", "&#x3E;", "&amp;lt;", "&quot;", "&", "&amp ", "&bogus;",
           # closing tags of the OTHER opaque tags (a body never contains its own)
           "</source>", "</pre>", "</math>", "</syntaxhighlight>", "</timeline>"]
# bodies of length 3 (thorough) are built from this structurally significant subset; lengths 1 and 2 from the whole alphabet
SIGMA_B3 = ["a", " ", "''", "[[", "]]", "{{T}}", "{{{1}}}", "}}", "{{", "|", "=", "<b>", "<!--", "&amp;", "\n* ", "\n{|", "<nowiki>", "</nowiki>",
            "<ref>", "<noinclude>", "</noinclude>", "&lt;nowiki&gt;", "&", "</source>"]
S0, S1 = "Sxq0", "Sxq1"
CONTEXTS = [
    ("top", "%s", {}),
    ("bullet", "* %s\n", {}),
    ("cell", "{|\n| %s\n|}\n", {}),
    ("bold", "'''%s'''", {}),
    ("caption", "{|\n|+ %s\n|-\n| c\n|}\n", {}),
    # inside the body of extension tags that are themselves expanded and parsed again
    ("in-ref", "x<ref>r %s</ref>y", {}),
    ("in-poem", "<poem>\nline %s\n</poem>", {}),
    ("in-ref-in-arg", "{{E|x<ref>%s</ref>}}", {"E": "{{{1}}}"}),
    # the same, parsed without a wiki database (parse_string(..., wikidb=None))
    ("in-ref-nodb", "x<ref>r %s</ref>y", None),
    ("in-poem-nodb", "<poem>\nline %s\n</poem>", None),
    ("top-nodb", "%s", None),
    ("positional-arg", "{{E|%s}}", {"E": "{{{1}}}"}),
    ("named-arg", "{{N|x=%s}}", {"N": "{{{x}}}"}),
    ("template-body", "{{B}}", None),
    # arguments and branches of parser functions (the function works on the surrounding text, never on the protected region)
    ("if-branch", "{{#if:x|%s}}", {}),
    ("switch-branch", "{{#switch:k|k=%s}}", {}),
    # directly behind extension tags that produce no node of their own (not one character in between)
    ("after-ignored-tag", "%s", {}),
    ("after-ignored-tags", "* %s\n", {}),
    ("styled-template-arg", "{{M|%s}}", {"M": '<templatestyles src="x"/>{{{1}}}'}),
    # on a page whose braces nest deeper than the template parser follows (it leaves such a page unexpanded)
    ("beside-deep-braces", "%s " + "{{lc:" * 400 + "z" + "}}" * 400, {}),
    ("lc-arg", "{{lc:%s}}", {}),
    ("uc-arg", "{{uc:%s}}", {}),
]
# functions that consume their argument (MediaWiki drops the markers of protected regions there): the region need not arrive,
# but no debris of a marker may reach the document
CONSUMING = {"urlencode-arg": "{{urlencode:%s}}", "anchorencode-arg": "{{anchorencode:%s}}", "padright-fill": "{{padright:x|40|%s}}",
             "padleft-fill": "{{padleft:x|40|%s}}", "displaytitle": "{{DISPLAYTITLE:%s}}"}
DEBRIS = re.compile("UNIQ-|-QINU|\x7f")
HEAVY_CONTEXTS = ["beside-deep-braces"]  # (parsing the page costs ~10 ms: shorter bodies)
SENTINEL_CASE = {"lc-arg": str.lower, "uc-arg": str.upper}
# what stands between the first sentinel and the region (nothing, normally)
GLUE = {"after-ignored-tag": '<templatestyles src="x"/>', "after-ignored-tags": '<templatestyles src="x"/><categorytree>c</categorytree>'}


def decode_entities(s):
    known = {"amp": "&", "#65": "A", "lt": "<", "gt": ">", "#60": "<", "#x3E": ">", "quot": '"'}

    def rep(m):
        return known.get(m.group(1), m.group(0))
    # one pass, well-formed references only: what a decoded entity produces is text, never markup and never decoded again
    return re.sub(r"&([a-zA-Z0-9#]+);", rep, s)


def leaves(node, out):
    nm = type(node).__name__
    if nm in ("Math", "Timeline"):
        out.append(node.caption or "")
        return
    if nm == "Text":
        out.append(node.caption or "")
    for c in node.children:
        leaves(c, out)


def shape(node, out):
    out.append(type(node).__name__)
    out.append("(")
    last_text = False
    for c in node.children:
        if type(c).__name__ == "Text":
            if last_text:
                continue  # adjacent Text nodes are one run of text
            last_text = True
        else:
            last_text = False
        shape(c, out)
    out.append(")")


class C09(InputProp):
    id = "C09"
    rule = ("6 tags x 22 contexts (with and without a wiki database; + 5 argument-consuming functions judged by 'no marker debris') x every body over a 55-lexeme markup alphabet up to length 2 (thorough: plus length 3 over a 24-lexeme subset) (bodies containing the tag's own "
            "closing tag excluded); distinct = distinct (tag, context, tree shape) outcomes")
    assumptions = ("bodies are sequences of the 55 lexemes of SIGMA_B", "the reserved marker byte 0x7f does not occur in bodies (excluded by the statement)")
    chunk = 1500
    soft_timeout = 20.0

    def prepare(self, tier):
        from mwlib.parser.refine import uparser
        from mwlib.utils.uniq import Uniquifier
        Uniquifier.random_string = "0123456789abcdef"
        self.Uniquifier = Uniquifier
        self.parse = uparser.parse_string
        light = [c[0] for c in CONTEXTS if c[0] not in HEAVY_CONTEXTS]
        bodies = Product(TAGS, light, Seqs(SIGMA_B, 2, minlen=1), name="bodies")
        bodies3 = Product(TAGS, light, Seqs(SIGMA_B3, 3, minlen=3), name="bodies")
        heavy = Product(TAGS, HEAVY_CONTEXTS, Seqs(SIGMA_B, 1 if tier == "quick" else 2, minlen=1), name="bodies")
        # the same region once inside <nowiki> and once for real on one page (one Uniquifier): markers must not be shared
        twins = Product(["math", "pre", "source", "syntaxhighlight", "timeline"], ["real-first", "nowiki-first"],
                        ["top", "bullet", "cell", "bold"], ["w", "x^2 ''a''"], name="twins")
        consumed = Product(TAGS, sorted(CONSUMING), Seqs(SIGMA_B, 1 if tier == "quick" else 2, minlen=1), name="consumed")
        # the function form of a tag with its body protected by <nowiki>: {{#tag:source|<nowiki>code</nowiki>}}
        tagfn = Product(["pre", "source", "syntaxhighlight", "math", "timeline"], ["tag-function"], Seqs(SIGMA_B, 1 if tier == "quick" else 2, minlen=1), name="tagfn")
        spelled = Product(TAGS, [c + "@" + sp for c in ("top", "cell", "positional-arg", "template-body", "in-ref") for sp in ("upper", "capitalized", "close-upper", "camel")],
                          Seqs(SIGMA_B, 1 if tier == "quick" else 2, minlen=1), name="bodies")
        self.space = Concat(bodies, heavy, twins, consumed, tagfn, spelled) if tier == "quick" else Concat(bodies, bodies3, heavy, twins, consumed, tagfn, spelled)
        self.ctx = {c[0]: c for c in CONTEXTS}
        self.baselines = {}

    def page(self, tag, ctxname, body):
        ctxname, _, spell = ctxname.partition("@")
        _, tmpl, pages = self.ctx[ctxname]
        # tag names are case-insensitive: <Math>, <PRE>, <NoWiki>, or only the closing tag in another case
        to, tc = {"": (tag, tag), "upper": (tag.upper(), tag.upper()), "capitalized": (tag.capitalize(), tag), "close-upper": (tag, tag.upper()),
                  "camel": (tag[:2].upper() + tag[2:], tag[:1].upper() + tag[1:])}[spell]
        # a second instance of the tag follows, so that a match running past the closing tag is visible
        inner = "%s%s<%s>%s</%s>%s<%s>w</%s>" % (S0, GLUE.get(ctxname, ""), to, body, tc, S1, to, tc)
        if ctxname == "template-body":
            return "{{B}}", {"B": inner, "T": "tt"}
        pg = dict(pages or {})
        pg["T"] = "tt"
        return tmpl % inner, pg

    def tree(self, tag, ctxname, body):
        text, pages = self.page(tag, ctxname, body)
        if ctxname.partition("@")[0].endswith("-nodb"):
            return self.parse(title="Test", raw=text, wikidb=None, lang="en"), text
        return self.parse(title="Test", raw=text, wikidb=LangDB("en", pages), lang="en"), text

    def baseline(self, tag, ctxname):
        key = (tag, ctxname)
        if key not in self.baselines:
            t, _ = self.tree(tag, ctxname, "w")
            sh = []
            shape(t, sh)
            self.baselines[key] = "".join(sh)
        return self.baselines[key]

    def describe(self, case):
        if case[0] == "twins":
            return {"twin": case[1]}
        tag, ctxname, body = case[1]
        if case[0] == "tagfn":
            return {"tag": tag, "context": ctxname, "body": "".join(body), "page": "{{#tag:%s|<nowiki>%s</nowiki>}}" % (tag, "".join(body))}
        if case[0] == "consumed":
            return {"tag": tag, "context": ctxname, "body": "".join(body), "page": CONSUMING[ctxname] % ("<%s>%s</%s>" % (tag, "".join(body), tag))}
        return {"tag": tag, "context": ctxname, "body": "".join(body), "page": self.page(tag, ctxname, "".join(body))[0]}

    def run_twin(self, c):
        tag, order, ctxname, inner = c
        real = "<%s>%s</%s>" % (tag, inner, tag)
        quoted = "%s<nowiki>%s</nowiki>%s" % (S0, real, S1)
        text = self.ctx[ctxname][1] % ((real + " and " + quoted) if order == "real-first" else (quoted + " and " + real))
        try:
            t = self.parse(title="Test", raw=text, wikidb=LangDB("en", {}), lang="en")
        except Exception as e:
            return {"key": "exc", "viol": [{"sig": "twin|raises:" + exc_signature(e), "msg": "parsing %r raised %r" % (text, e)}]}
        out = []
        leaves(t, out)
        alltext = "".join(out)
        viol = []
        m = re.search(re.escape(S0) + "(.*)" + re.escape(S1), alltext, re.S)
        if not m or m.group(1) != real:
            viol.append({"sig": "twin|body:%s:%s" % (tag, order), "msg": "page %r: the nowiki region reads %r, written %r" % (text, m.group(1) if m else None, real)})
        kinds = {"math": "Math", "pre": "PreFormatted", "timeline": "Timeline"}
        n = [0]

        def count(node):
            nm = type(node).__name__
            if nm == kinds.get(tag) or (tag in ("source", "syntaxhighlight") and nm == "TagNode" and getattr(node, "caption", "") == "source"):
                n[0] += 1
            for ch in node.children:
                count(ch)
        count(t)
        if n[0] != 1:
            viol.append({"sig": "twin|nodes:%s:%s" % (tag, order), "msg": "page %r has %d <%s> nodes, exactly one region is real" % (text, n[0], tag)})
        return {"key": ("twin", tag, order, n[0]), "steps": 1, "viol": viol}

    def run_case(self, case):
        fam, case = case
        if fam == "twins":
            return self.run_twin(case)
        tag, ctxname, lex = case
        body = "".join(lex)
        if ("</%s>" % tag) in body.lower() or "\x7f" in body:
            return {"key": "excluded", "counters": {"excluded_own_closing_tag": 1}}
        if fam == "tagfn":
            if "</nowiki>" in body.lower():
                return {"key": "excluded", "counters": {"excluded_own_closing_tag": 1}}
            text = "before {{#tag:%s|%s<nowiki>%s</nowiki>%s}} after" % (tag, S0, body, S1)
            try:
                t = self.parse(title="Test", raw=text, wikidb=LangDB("en", {"T": "tt"}), lang="en")
            except Exception as e:
                return {"key": "exc", "viol": [{"sig": "raises:" + exc_signature(e), "msg": "parsing %r raised %r" % (text, e)}]}
            out = []

            def walk(n):
                if type(n).__name__ in ("Text", "Math", "Timeline") and isinstance(getattr(n, "caption", None), str):
                    out.append(n.caption)
                for ch in n.children:
                    walk(ch)
            walk(t)
            alltext = "".join(out)
            want = decode_entities(body) if tag == "pre" else body
            m = re.search(re.escape(S0) + "(.*)" + re.escape(S1), alltext, re.S)
            viol = []
            if not m or m.group(1) != want or DEBRIS.search(alltext):
                viol.append({"sig": "%s|body:%s:tag-function" % (self.feature(lex, tag), tag),
                             "msg": "page %r: the tree carries %r between the sentinels, the body written is %r" % (text, (m.group(1) if m else alltext)[:200], want)})
            return {"key": (tag, ctxname, bool(viol)), "steps": 1, "viol": viol}
        if fam == "consumed":
            text = "before " + CONSUMING[ctxname] % ("%s<%s>%s</%s>%s<%s>w</%s>" % (S0, tag, body, tag, S1, tag, tag)) + " after"
            try:
                t = self.parse(title="Test", raw=text, wikidb=LangDB("en", {"T": "tt"}), lang="en")
            except Exception as e:
                return {"key": "exc", "viol": [{"sig": "raises:" + exc_signature(e), "msg": "parsing %r raised %r" % (text, e)}]}
            out = []
            leaves(t, out)
            alltext = "".join(out)
            viol = []
            if DEBRIS.search(alltext + str(getattr(t, "caption", ""))) or not alltext.startswith("before ") or not alltext.rstrip().endswith(" after"):
                viol.append({"sig": "%s|debris:%s:%s" % (self.feature(lex, tag), tag, ctxname),
                             "msg": "page %r: pieces of a region marker reach the document: %r" % (text, alltext[:200])})
            return {"key": (tag, ctxname, bool(viol)), "steps": 1, "viol": viol}
        viol = []
        feature = self.feature(lex, tag)
        try:
            t, text = self.tree(tag, ctxname, body)
        except Exception as e:
            return {"key": "exc", "viol": [{"sig": "raises:" + exc_signature(e), "msg": "parsing %r raised %r" % (self.page(tag, ctxname, body)[0], e)}]}
        out = []
        leaves(t, out)
        alltext = "".join(out)
        want = decode_entities(body) if tag in ("nowiki", "pre") else body
        cs = SENTINEL_CASE.get(ctxname, str)
        s0, s1 = cs(S0), cs(S1)
        m = re.search(re.escape(s0) + "(.*)" + re.escape(s1), alltext, re.S)
        if alltext.count(s0) != 1 or alltext.count(s1) != 1 or not m:
            viol.append({"sig": "%s|sentinels:%s:%s" % (feature, tag, ctxname),
                         "msg": "surrounding text damaged: page %r gives text %r" % (text, alltext[:200])})
        elif m.group(1) != want:
            viol.append({"sig": "%s|body:%s:%s" % (feature, tag, ctxname),
                         "msg": "page %r: the tree carries %r between the sentinels, the body written is %r" % (text, m.group(1)[:200], want)})
        sh = []
        shape(t, sh)
        sh = "".join(sh)
        base = self.baseline(tag, ctxname)
        if sh != base and not viol:
            viol.append({"sig": "%s|interpreted:%s:%s" % (feature, tag, ctxname),
                         "msg": "page %r: tree structure %s differs from the structure with a plain body %s" % (text, sh[:200], base[:200])})
        if tag != "nowiki":
            s = "x<%s>%s</%s>y" % (tag, body, tag)
            u = self.Uniquifier()
            back = u.replace_uniq(u.replace_tags(s))
            if back != s:
                viol.append({"sig": "%s|roundtrip:%s" % (feature, tag), "msg": "replace_uniq(replace_tags(%r)) = %r" % (s, back)})
        return {"key": (tag, ctxname, sh), "steps": 1, "viol": viol}

    @staticmethod
    def feature(lex, tag):
        """the body lexeme class that is at stake (first markup lexeme of the body)"""
        for x in lex:
            if x in ("<noinclude>", "</noinclude>", "<includeonly>", "<onlyinclude>"):
                return "include-tags"
        if tag == "pre" and ("<nowiki>" in lex or "</nowiki>" in lex):
            return "nowiki-in-pre"
        for x in lex:
            if x not in ("a", " "):
                return x.strip() or "blankline"
        return "plain"

    def finish(self, agg):
        errs = []
        if len(agg["keys"]) < 30:
            errs.append("vacuous: %d distinct outcomes" % len(agg["keys"]))
        return {}, errs


PROP = C09()
