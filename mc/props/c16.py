"""C16 – the job queue neither loses nor duplicates a job, under any interleaving."""
import os

from mc.props import qs_explore as X

RULE = ("explicit-state BFS over histories of the REAL queue server (qs.jobs.workq + QPlugin + rpcserver.Server.handle_client "
        "on in-memory sockets) under a driver-controlled gevent hub; a transition = one event-loop iteration: an ordered list of "
        "1..K request arrivals / EOFs / timer events, then all callbacks run FIFO to quiescence; every choice among blocked "
        "workers is branched on; distinct = canonical quiescent states modulo worker permutation and channel swap")
ASSUME = ("gevent runs run_callback callbacks FIFO and drains them before polling I/O again (gevent 26.8 semantics)",
          "at most K events become ready in one event-loop iteration; one request line per connection per iteration",
          "3 workers, 2 channels, <= 4 jobs; a disconnected worker does not reconnect")

BASE_OPS = {"add", "pull", "finish", "kill", "tick", "eof", "readd"}   # add(channel, priority, id) may name an existing id
EXT_OPS = BASE_OPS | {"wait", "wait2"}


def narrow_cfg(tier, ops, **kw):
    """deep exploration of a narrow configuration in which every operation collides by construction:
    1 channel, 2 workers, <= 2 jobs, one priority"""
    base = dict(bound=11 if tier == "quick" else 13, maxpoll=2, maxjobs=2, prios=(0,), timeouts=(10.0,), channels=("a",),
                pullsets=(("a",),), workers=("w1", "w2"), finish_kinds=("ok",), kill_by_holder=False, ops=set(ops), probe=True)
    base.update(kw)
    return X.Cfg(**base)


def make_cfg(tier, ops, maxrestarts=0):
    if tier == "quick":
        cfg = X.Cfg(bound=8, maxpoll=2, maxjobs=3, prios=(0, 1), timeouts=(10.0,), finish_kinds=("ok", "err"),
                    kill_by_holder=False, ops=set(ops), maxrestarts=min(maxrestarts, 1))
        cap = 90
    else:
        cfg = X.Cfg(bound=8, maxpoll=3, maxjobs=4, prios=(0, 1), timeouts=(10.0, 100.0), ops=set(ops), maxrestarts=maxrestarts)
        cap = 1200
    for kv in filter(None, os.environ.get("VERIF_QS", "").split(",")):
        k, v = kv.split("=")
        if k == "cap":
            cap = int(v)
        else:
            setattr(cfg, k, int(v))
    return cfg, cap


class C16:
    id = "C16"
    families = ("C16",)

    def main(self, tier, seed, gate=True):
        cfg, cap = make_cfg(tier, BASE_OPS)
        narrow = narrow_cfg(tier, {"add", "readd", "pull", "kill", "eof", "finish"})
        # client-chosen integer ids next to server-numbered jobs: the id a client picked may be the next serial number
        intids = narrow_cfg(tier, {"add", "addanon", "pull", "eof", "finish"}, maxjobs=3, bound=8 if tier == "quick" else 10, idnames=(2, 1, 3))
        falsy = narrow_cfg(tier, {"add", "readd", "pull", "eof", "finish", "kill"}, bound=8 if tier == "quick" else 10, idnames=("", 0))
        # client-chosen ids that are exactly the next two numbers the server would hand out
        collide = narrow_cfg(tier, {"add", "addanon", "pull", "finish", "eof"}, workers=("w1", "w2"), maxjobs=3, bound=10 if tier == "quick" else 12,
                             idnames=(3, 4, "x"))
        return X.search_phases(self.id, [("wide", cfg, cap), ("narrow-deep", narrow, 60 if tier == "quick" else 600),
                                         ("server-numbers-taken", collide, 60 if tier == "quick" else 300),
                                         ("integer-ids", intids, 60 if tier == "quick" else 300),
                                         ("falsy-ids", falsy, 60 if tier == "quick" else 300)], tier, seed,
                               self.families, rule=RULE + "; second phase: the narrow configuration (1 channel, 2 workers, 2 jobs) to a deeper bound; third phase: client-chosen integer ids (2, 1, 3) mixed with server-numbered jobs; fourth phase: ids '' and 0 (falsy in Python) with re-adds",
                               assumptions=ASSUME, gate=gate)

    def replay(self, record):
        return X.replay_history(record, self.families, make_cfg("quick", BASE_OPS)[0])


PROP = C16()
