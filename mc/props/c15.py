"""C15 – opening a collection archive never writes outside its extraction directory.

Space: member names = component sequences of length 1..4 (quick) / 1..5 (thorough) over {'..', '.', '', 'a', <dstname>,
<dstname>x} joined by every assignment of '/' or '\\' to the separators, relative and absolute; each as the middle member of an
archive between two benign members; destination spelled absolute / relative / with trailing separator, with a sibling
directory sharing its name prefix.  Entry points: nuwiki.extractall, nuwiki.Adapt(zipfile), wiki.extract_wiki (multi-nuwiki).
Oracle: reference lexical resolution (mc/ref/path_ref.py) says whether a member escapes; a snapshot of the sandbox outside the
destination must be unchanged, always; if a member escapes the call must have raised; plainly ordinary archives must extract.
All hostile names resolve inside a private sandbox (destination nested 6 levels deep; absolute names point into the sandbox),
so even a broken implementation cannot write elsewhere.
"""
import io
import itertools
import os
import shutil
import tempfile
import zipfile

from mc.core.runner import InputProp
from mc.core.space import Space
from mc.ref import path_ref

DST = "dst"
COMPONENTS = ["..", ".", "", "a", DST, DST + "x"]


class NameSpace(Space):
    """(components tuple, separator tuple, absolute flag), shortest first"""
    name = "names"

    def __init__(self, maxlen):
        self.items = []
        for n in range(1, maxlen + 1):
            for comps in itertools.product(COMPONENTS, repeat=n):
                for seps in itertools.product("/\\", repeat=n - 1):
                    for absolute in (False, True):
                        self.items.append((comps, seps, absolute))

        # out of the destination through a sibling that does not exist yet and back in through the destination's own name:
        # the normalised target is inside, the path as written passes through directories outside
        for sib in ("ghost", "a", DST + "x"):
            for tail in (("a",), ("a", "a"), ("a", "")):
                for pre in ((), ("a", "..")):
                    comps = pre + ("..", sib, "..", DST) + tail
                    item = (comps, ("/",) * (len(comps) - 1), False)
                    if item not in self.items:
                        self.items.append(item)

        # (wave 11) a sibling whose name differs from the destination's only in letter case is still outside
        for sib in (DST.upper(), DST.capitalize()):
            for pre in ((), ("a", ".."), (".",)):
                for tail in (("a",), ("a", "a"), ("",)):
                    comps = pre + ("..", sib) + tail
                    for sep in "/\\":
                        self.items.append((comps, (sep,) * (len(comps) - 1), False))

    def __len__(self):
        return len(self.items)

    def __getitem__(self, i):
        return self.items[i]


def join(comps, seps):
    out = comps[0]
    for s, c in zip(seps, comps[1:]):
        out += s + c
    return out


class C15(InputProp):
    id = "C15"
    rule = ("every member name over 6 components x {/,\\} separators x relative/absolute up to the length bound, as middle member of a "
            "3-member archive, x 4 destination spellings through nuwiki.extractall and, after a change of the working directory, the same two relative spellings again (plus Adapt and extract_wiki on the short names); "
            "distinct = distinct (resolved target, verdict) pairs")
    assumptions = ("POSIX path semantics (backslash is an ordinary character)", "no symlinks inside the destination")
    chunk = 400
    soft_timeout = 30.0

    def prepare(self, tier):
        from mwlib.core import nuwiki, wiki
        self.nuwiki, self.wiki = nuwiki, wiki
        self.space = NameSpace(4 if tier == "quick" else 5)
        self.sandbox = None

    def worker_init(self, ctx):
        self.sandbox = None

    def setup_sandbox(self):
        if self.sandbox and os.path.isdir(self.sandbox):
            return
        root = tempfile.mkdtemp(prefix="c15-sbx-")
        self.sandbox = root
        self.deep = os.path.join(root, "l1", "l2", "l3", "l4", "l5", "l6")
        os.makedirs(self.deep)
        self.dst = os.path.join(self.deep, DST)
        os.makedirs(os.path.join(self.deep, DST + "x"))       # sibling sharing the name prefix
        with open(os.path.join(self.deep, DST + "x", "keep"), "w") as f:
            f.write("sibling")
        # a second working directory of the same depth: the same RELATIVE destination string means another directory there
        self.other = os.path.join(root, "l1", "l2", "l3", "l4", "l5", "m6")
        os.makedirs(self.other)
        os.makedirs(os.path.join(root, "abs"))
        os.makedirs(os.path.join(self.deep, "tmp"))
        with open(os.path.join(root, "l1", "a"), "w") as f:
            f.write("outside")
        import atexit
        atexit.register(shutil.rmtree, root, True)

    def snapshot(self, exclude):
        snap = {}
        for dp, dns, fns in os.walk(self.sandbox):
            if dp == exclude or dp.startswith(exclude + os.sep):
                dns[:] = []
                continue
            dns[:] = [d for d in dns if os.path.join(dp, d) != exclude]
            snap[dp] = None
            for fn in fns:
                p = os.path.join(dp, fn)
                try:
                    st = os.lstat(p)
                    snap[p] = (st.st_size, st.st_mtime_ns, st.st_mode)
                except OSError:
                    snap[p] = "?"
        return snap

    def make_zip(self, names, nfo=None):
        buf = io.BytesIO()
        zf = zipfile.ZipFile(buf, "w")
        if nfo:
            zf.writestr("nfo.json", nfo)
        for i, nm in enumerate(names):
            zi = zipfile.ZipInfo("placeholder%d" % i)
            zi.filename = nm
            zf.writestr(zi, b"payload-%d" % i)
        zf.close()
        buf.seek(0)
        zf = zipfile.ZipFile(buf)
        for info, nm in zip([i for i in zf.infolist() if i.filename != "nfo.json" or not nfo], names):
            pass
        return zf

    def clean(self, paths):
        for p in paths:
            shutil.rmtree(p, ignore_errors=True)

    def run_case(self, case):
        comps, seps, absolute = case
        self.setup_sandbox()
        name = join(comps, seps)
        if absolute:
            name = os.path.join(self.sandbox, "abs") + "/" + name
        names = ["first.txt", name, "sub/last.txt"]
        viol = []
        keys = set()
        steps = 0
        ordinary = all(c in ("a", DST, DST + "x") for c in comps) and not absolute and "\\" not in seps

        def run_entry(label, call, dst_for_ref, exclude):
            nonlocal steps
            steps += 1
            esc = [n for n in names if path_ref.escapes(dst_for_ref, n)] if dst_for_ref else None
            before = self.snapshot(exclude)
            raised = None
            try:
                call()
            except BaseException as e:  # noqa
                if isinstance(e, (KeyboardInterrupt,)) or type(e).__name__ == "CaseTimeout":
                    raise
                raised = e
            after = self.snapshot(exclude)
            if before != after:
                changed = sorted(set(before.items()) ^ set(after.items()), key=repr)[:4]
                viol.append({"sig": "wrote-outside:%s" % label,
                             "msg": "member %r through %s changed the file system outside the destination: %r" % (name, label, changed)})
            if esc is not None:
                if esc and raised is None:
                    viol.append({"sig": "escape-not-rejected:%s" % label,
                                 "msg": "member %r escapes %r (reference resolution) but %s did not raise" % (esc[0], dst_for_ref, label)})
                if not esc and ordinary and raised is not None:
                    viol.append({"sig": "ordinary-archive-rejected:%s" % label,
                                 "msg": "archive with ordinary member %r failed through %s: %r" % (name, label, raised)})
                if not esc and ordinary and raised is None:
                    tgt = os.path.normpath(os.path.join(dst_for_ref, name))
                    if not os.path.isfile(tgt):
                        viol.append({"sig": "member-missing:%s" % label, "msg": "%r was not extracted to %r" % (name, tgt)})
                keys.add((label, bool(esc), type(raised).__name__ if raised else None,
                          os.path.relpath(os.path.normpath(os.path.join(dst_for_ref, name)), self.deep)))

        # nuwiki.extractall with four spellings of the destination
        cwd = os.getcwd()
        try:
            os.chdir(self.deep)
            for label, dst in (("abs", self.dst), ("abs-slash", self.dst + "/"), ("rel", DST), ("rel-dot-slash", "./" + DST + "/")):
                self.clean([self.dst])
                zf = self.make_zip(names)
                run_entry("extractall/" + label, lambda: self.nuwiki.extractall(zf, dst), self.dst, self.dst)
            self.clean([self.dst])
            # history: the process changes its working directory and extracts to the SAME relative destination string again
            os.chdir(self.other)
            odst = os.path.join(self.other, DST)
            for label, dst in (("rel@second-cwd", DST), ("rel-dot-slash@second-cwd", "./" + DST + "/")):
                self.clean([odst, self.dst])
                zf = self.make_zip(names)
                run_entry("extractall/" + label, lambda: self.nuwiki.extractall(zf, dst), odst, odst)
            self.clean([odst, self.dst])
            os.chdir(self.deep)
            if len(comps) <= 3:
                # entry points that choose their own temporary destination (placed inside the sandbox)
                tmpbase = os.path.join(self.deep, "tmp")
                old = tempfile.tempdir
                tempfile.tempdir = tmpbase
                try:
                    zf = self.make_zip(names, nfo='{"format": "nuwiki"}')
                    run_entry("Adapt", lambda: self.nuwiki.Adapt(zf), None, tmpbase)
                    esc_any = any(path_ref.escapes(os.path.join(tmpbase, "tmpXXXX"), n) for n in names)
                    # decide "raised" for Adapt/extract_wiki with a generic temp name of the same depth
                    path = os.path.join(tmpbase, "hostile.zip")
                    with open(path, "wb") as f:
                        z2 = zipfile.ZipFile(f, "w")
                        z2.writestr("nfo.json", '{"format": "multi-nuwiki"}')
                        for i, nm in enumerate(names):
                            zi = zipfile.ZipInfo("p%d" % i)
                            zi.filename = nm
                            z2.writestr(zi, b"x")
                        z2.close()
                    before_tmp = set(os.listdir(tmpbase))
                    run_entry("extract_wiki", lambda: self.wiki.extract_wiki(path, self.wiki.Environment(None), None), None, tmpbase)
                    keys.add(("tmp-entry", esc_any))
                finally:
                    tempfile.tempdir = old
                    for n in os.listdir(tmpbase):
                        p = os.path.join(tmpbase, n)
                        shutil.rmtree(p, ignore_errors=True) if os.path.isdir(p) else os.unlink(p)
        finally:
            os.chdir(cwd)
        return {"key": keys, "steps": steps, "viol": viol}

    def describe(self, case):
        return {"member": join(case[0], case[1]), "absolute": case[2]}

    def finish(self, agg):
        errs = []
        if len(agg["keys"]) < 50:
            errs.append("vacuous: %d distinct (target, verdict) outcomes" % len(agg["keys"]))
        return {}, errs


PROP = C15()
