"""C11 – fetching a collection yields a complete and faithful archive.

System: the real make_nuwiki -> StartFetcher -> Fetcher -> FsOutput, run in a greenlet under the controlled gevent hub;
mwapi.MwApi is subclassed only at _request/_post (the HTTP boundary), which block until the explorer DELIVERS the synthetic
wiki's answer; the download client is a fake httpx client, so the real transport.download_with_retries writes the image bytes.
Configurations (all enumerated): article sets x template depth x image placement x redirect shapes x revisions/pinned revid x
missing page x chapters x noimages x api batch size.  Schedules: default FIFO delivery for every configuration, and for the
representative ones every delivery order with <= 1 (quick) / <= 2 (thorough) deviations from FIFO.
Oracle: terminates (deadlock/livelock detected), no unhandled greenlet error, texts/redirects/images/imageinfo/description
pages/contributors as the wiki reports; missing pages and dead/circular redirects skipped with the rest intact; under noimages
no image request at all.
"""
import contextlib
import io
import json
import os
import shutil
import tempfile

from mc.core.runner import InputProp, exc_signature
from mc.core.space import Space
from mc.core import chub
from mc.gen.synthwiki import SynthWiki, API, BASE


# ----------------------------------------------------------------------------- synthetic wikis
def make_wiki(cfg):
    """cfg: dict(tdepth, img, redirect, revs, missing) -> (SynthWiki, article list [(title, revid or None)], expectations)"""
    pages = {}
    images = []
    tdepth, img = cfg["tdepth"], cfg["img"]
    img_markup = "[[File:Pic one.png|thumb|cap]]" + (" [[File:Pic two.png]] [[File:Pic three.png|30px]]" if cfg.get("many") else "")
    # template chain T1 -> T2 ; the image may only be reachable through the deepest template
    if tdepth >= 1:
        pages["Template:T1"] = [(101, "t1[{{{1}}}]" + ("{{T2}}" if tdepth >= 2 else (img_markup if img == "deep" else "")))]
    if tdepth >= 2:
        pages["Template:T2"] = [(102, "t2" + (img_markup if img == "deep" else ""))]
    call = "{{T1|x}}" if tdepth >= 1 else ""
    direct = img_markup if img in ("direct", "shared") else ""
    a_old = "Alpha old text."
    a_new = "Alpha text %s %s end." % (call, direct)
    pages["Alpha"] = [(11, a_old), (12, a_new)] if cfg["revs"] != "single" else [(12, a_new)]
    if cfg["revs"] == "two-pins":
        pages["Alpha"].insert(0, (10, "Alpha oldest text."))
    pages["Beta"] = [(21, "Beta text %s." % (img_markup if img == "shared" else ""))]
    if img != "none":
        images.append("File:Pic one.png")
        if cfg.get("many"):
            images += ["File:Pic two.png", "File:Pic three.png"]
    red = cfg["redirect"]
    articles = []
    if red == "none" and cfg["revs"] in ("both", "both-reversed", "two-pins"):
        # one article listed twice at different revisions (e.g. current in one chapter, pinned in another)
        articles += {"both": [("Alpha", None), ("Alpha", 11)], "both-reversed": [("Alpha", 11), ("Alpha", None)],
                     "two-pins": [("Alpha", 10), ("Alpha", 11)]}[cfg["revs"]]
    elif red == "none":
        articles.append(("Alpha", 11 if cfg["revs"] == "pinned-old" else None))
    elif red == "single":
        pages["Rd"] = [(31, "#REDIRECT [[Alpha]]")]
        articles.append(("Rd", None))
    elif red == "chain":
        pages["Rd"] = [(31, "#REDIRECT [[Rd2]]")]
        pages["Rd2"] = [(32, "#REDIRECT [[Alpha]]")]
        articles.append(("Rd", None))
    elif red == "self":
        pages["Rd"] = [(31, "#REDIRECT [[Rd]]")]
        articles += [("Rd", None), ("Alpha", None)]
    elif red == "cycle":
        pages["Rd"] = [(31, "#REDIRECT [[Rd2]]")]
        pages["Rd2"] = [(32, "#REDIRECT [[Rd]]")]
        articles += [("Rd", None), ("Alpha", None)]
    elif red == "into-cycle":
        # a listed redirect that leads INTO a circle it is not part of
        pages["Rd"] = [(31, "#REDIRECT [[Rd2]]")]
        pages["Rd2"] = [(32, "#REDIRECT [[Rd3]]")]
        pages["Rd3"] = [(33, "#REDIRECT [[Rd2]]")]
        articles += [("Rd", None), ("Alpha", None)]
    elif red == "pinned-retargeted":
        # the book pins an old revision of a redirect page; the page points somewhere else today
        pages["Rd"] = [(30, "#REDIRECT [[Alpha]]"), (31, "#REDIRECT [[Beta]]")]
        articles.append(("Rd", 30))
    elif red == "dead":
        pages["Rd"] = [(31, "#REDIRECT [[Nowhere]]")]
        articles += [("Rd", None), ("Alpha", None)]
    if cfg["two"]:
        articles.append(("Beta", None))
    if cfg["missing"] == "last":
        articles.append(("Zz missing page", None))  # (its failing requests are the last ones to complete)
    elif cfg["missing"]:
        articles.insert(1 if articles else 0, ("Missing page", None))
    contributors = {"Alpha": {"named": ["Ann", "Bob", "Cid", "Dee"] if cfg.get("many") else ["Ann", "Bob"], "bots": ["CleanupBot"], "anon": 3},
                    # (with `two`: a page edited by logged-out users only - the API then sends no "contributors" key at all)
                    "Beta": {"named": ["Cy"], "bots": [], "anon": 0} if cfg["limit"] != 1 else {"named": [], "bots": [], "anon": 4},
                    "File:Pic one.png": {"named": ["Uploader"], "bots": ["ImageBot"], "anon": 1}}
    return SynthWiki(pages, images, contributors), articles


class Configs(Space):
    name = "configs"

    def __init__(self, tier):
        cs = []
        for tdepth in (0, 1, 2):
            for img in ("none", "direct", "deep", "shared"):
                if img == "deep" and tdepth == 0:
                    continue
                for red in ("none", "single", "chain", "self", "cycle", "into-cycle", "pinned-retargeted", "dead"):
                    for revs in ("single", "two", "pinned-old", "both", "both-reversed", "two-pins"):
                        if revs not in ("single", "two") and red != "none":
                            continue
                        if revs in ("both", "both-reversed", "two-pins") and tier == "quick" and (img == "shared" or tdepth == 1):
                            continue
                        for two in (False, True):
                            for missing in (False, True, "last"):
                                for noimages in (False, True):
                                    for limit in ((1, 50, 2) if tier != "quick" else (1, 50)):
                                        for chapters in (False, True):
                                            if tier == "quick" and (chapters or (missing is True and two) or (noimages and img == "none")):
                                                continue
                                            cs.append({"tdepth": tdepth, "img": img, "redirect": red, "revs": revs, "two": two, "missing": missing,
                                                       "noimages": noimages, "limit": limit, "chapters": chapters, "sched": ()})
        # result limits 1 / 2 / 3 with query continuation: several images and contributors per page
        for c in list(cs):
            if c["img"] != "none" and c["redirect"] in ("none", "single") and not c["missing"] and not c["chapters"] and c["revs"] == "single" \
                    and (tier != "quick" or (c["two"] and c["tdepth"] != 1)):
                for rl in ((1, 2, 3) if tier != "quick" else (1, 2)):
                    d = dict(c)
                    d["many"] = True
                    d["rlimit"] = rl
                    cs.append(d)
        # schedules: deviations from FIFO for representative configurations are generated lazily (see run_case)
        self.cases = cs
        rep = [c for c in cs if c["tdepth"] == 2 and c["img"] in ("deep", "shared") and c["two"] and not c["missing"] and not c["noimages"]
               and c["redirect"] in ("none", "single") and c["revs"] == "single" and not c["chapters"]]
        rep2 = [c for c in cs if c["revs"] in ("both", "two-pins") and c["tdepth"] == 0 and c["img"] == "none" and not c["two"] and not c["missing"]
                and not c["noimages"] and not c["chapters"] and c["limit"] == 1]
        self.rep = (rep[:6] + rep2[:2]) if tier == "quick" else (rep[:40] + rep2)
        for c in self.rep:
            d = dict(c)
            d["sched"] = "explore"
            self.cases.append(d)

    def __len__(self):
        return len(self.cases)

    def __getitem__(self, i):
        return self.cases[i]


# ----------------------------------------------------------------------------- one controlled run
class World:
    def __init__(self, wiki):
        self.wiki = wiki
        self.pending = []
        self.seq = 0
        self.points = []  # number of outstanding responses at each delivery point

    def await_response(self, kw):
        from gevent.event import AsyncResult
        ar = AsyncResult()
        self.seq += 1
        self.pending.append((self.seq, kw, ar))
        return ar.get()


class FakeStreamResponse:
    def __init__(self, data):
        self.data = data

    def raise_for_status(self):
        pass

    def iter_bytes(self, chunk_size=16384):
        yield self.data

    def __enter__(self):
        return self

    def __exit__(self, *a):
        return False


def run_fetch(cfg, schedule, deadline_steps=20000):
    """-> dict(outcome, fsdir, wiki, articles, points, errors)"""
    from mwlib.apps import make_nuwiki as mn
    from mwlib.network import fetch, sapi
    from mwlib.core import metabook
    from mwlib.utils import conf
    import gevent

    wiki, articles = make_wiki(cfg)
    world = World(wiki)

    class SynthApi(sapi.MwApi):
        def _ensure_oauth2_token(self):
            pass

        def _request(self, **kw):
            return json.dumps(world.await_response(kw))

        def _post(self, **kw):
            return world.await_response(kw)

    class FakeClient:
        def stream(self, method, url):
            return FakeStreamResponse(wiki.image_bytes(wiki.image_for_url(url)))

    if not conf.config.has_section("fetch"):
        conf.config.add_section("fetch")
    conf.config["fetch"]["api_request_limit"] = str(cfg["limit"])
    conf.config["fetch"]["api_result_limit"] = str(cfg.get("rlimit", 500))
    conf.config["fetch"]["rvlimit"] = str(cfg.get("rlimit", 500))
    conf.config["fetch"]["max_requests_per_second"] = "0"
    mn.mwapi.MwApi = SynthApi
    fetch._get_download_client = lambda url: FakeClient()
    fetch.Fetcher.titles_pending_contributor_lookup.clear()
    fetch.Fetcher.title_mapping.clear()

    mb = metabook.Collection()
    mb.wikis.append(metabook.WikiConf(baseurl=BASE))
    for i, (t, rev) in enumerate(articles):
        if cfg["chapters"] and i % 2 == 0:
            mb.items.append(metabook.Chapter(title="Ch%d" % i))
        mb.append_article(t, revision=rev)
    d = tempfile.mkdtemp(prefix="c11-")
    fsdir = os.path.join(d, "nuwiki")
    hub = chub.fresh_hub()
    result = {}

    def main():
        try:
            mn.make_nuwiki(fsdir, mb, {"script_extension": ".php", "noimages": cfg["noimages"]}, None, None)
            result["ok"] = True
        except BaseException as e:
            result["exc"] = e

    g = hub.start(main)
    sched = list(schedule)
    steps = 0
    outcome = "finished"
    while True:
        hub.drain()
        steps += 1
        if g.dead:
            break
        if steps > deadline_steps:
            outcome = "livelock"
            break
        if world.pending:
            n = len(world.pending)
            i = sched.pop(0) if sched else 0
            if i >= n:
                i = 0
            world.points.append(n)
            seq, kw, ar = world.pending.pop(i)
            try:
                ar.set(wiki.handle(kw))
            except Exception as e:  # an error in the synthetic wiki is a harness bug
                result["harness"] = e
                ar.set_exception(e)
            continue
        if hub.fire_timer():
            continue
        outcome = "deadlock"
        break
    errors = list(hub.errors)
    return {"outcome": outcome, "dir": d, "fsdir": fsdir, "wiki": wiki, "articles": articles, "points": world.points,
            "errors": errors, "result": result, "hub": hub}


# ----------------------------------------------------------------------------- oracle
def judge(cfg, run):
    from mwlib.core import nuwiki
    viol = []
    wiki, articles = run["wiki"], run["articles"]

    def bad(sig, msg):
        viol.append({"sig": sig, "msg": msg + " [config %s]" % json.dumps({k: v for k, v in cfg.items() if k != "sched"}, sort_keys=True)})

    if run["outcome"] != "finished":
        bad(run["outcome"], "fetching did not terminate: %s with %d request(s) outstanding" % (run["outcome"], 0))
        return viol, ("no-archive",)
    if "harness" in run["result"]:
        raise run["result"]["harness"]
    if "exc" in run["result"]:
        e = run["result"]["exc"]
        bad("fetch-raises:" + exc_signature(e), "make_nuwiki raised %s: %s" % (type(e).__name__, str(e)[:200]))
        return viol, ("raised",)
    for ctx, typ, msg in run["errors"]:
        if "The page you specified doesn't exist" in msg:
            continue  # the wiki's answer for a page that is not there: logged by the fetcher, the page is skipped
        bad("greenlet-error:%s" % typ, "unhandled %s in a fetcher greenlet: %s (%s)" % (typ, msg[:200], ctx[:80]))
    try:
        w = nuwiki.Adapt(run["fsdir"])
    except Exception as e:
        bad("archive-unreadable:" + exc_signature(e), "the fetched directory cannot be opened: %r" % (e,))
        return viol, ("unreadable",)
    key = []
    needed_images = set()
    for (title, rev) in articles:
        final, red = wiki.resolve(title)
        pinned_redirect = False
        if rev and title in wiki.pages:
            from mc.gen.synthwiki import REDIRECT
            m = REDIRECT.match(dict(wiki.pages[title]["revs"]).get(rev) or "")
            if m:  # the pinned revision is a redirect: its own target counts, not where the page points today
                tgt = m.group(1).strip()
                final, more = wiki.resolve(tgt)
                red = [{"from": title, "to": tgt}] + more
                pinned_redirect = True
        dead = final not in wiki.pages or wiki.redirect_target(final) is not None
        if title not in wiki.pages or dead:
            key.append((title, "skipped"))
            continue  # missing page / dead or circular redirect: nothing demanded but that the rest is intact
        want_raw = dict(wiki.pages[final]["revs"]).get(rev) if rev and not pinned_redirect else wiki.current(final)[1]
        want_exp = wiki.expand(want_raw)
        p = w.get_page(title, rev) if rev else w.normalize_and_get_page(title, 0)
        got = getattr(p, "rawtext", None)
        if p is None:
            bad("article-missing", "article %r (revision %r) is not in the archive" % (title, rev))
        elif got not in (want_raw, want_exp):
            bad("article-text", "article %r (revision %r) is stored as %r, the wiki serves %r" % (title, rev, got[:120], want_exp[:120]))
        key.append((title, got == want_exp, got == want_raw))
        if red:
            rec = w.redirects.get(title)
            if rec is None:
                bad("redirect-not-recorded", "redirect %r -> %r is not recorded (redirects.json: %r)" % (title, final, w.redirects))
        if not cfg["noimages"]:
            needed_images.update(wiki.used_images(want_raw))
        # contributors
        au = w.get_authors(final)
        want_c = wiki.contributors.get(final)
        if want_c is not None:
            want_list = sorted(want_c["named"]) + (["ANONIPEDITS:%d" % want_c["anon"]] if want_c["anon"] else [])
            if au is None or sorted(a for a in au if not a.startswith("ANONIPEDITS")) != sorted(want_c["named"]) or \
                    (want_c["anon"] and ("ANONIPEDITS:%d" % want_c["anon"]) not in (au or [])):
                bad("contributors", "contributors of %r are %r, the wiki reports %r" % (final, au, want_list))
            # ... and under the title the book lists (a redirect, possibly a chain): that is what the writers ask for
            if title != final:
                au2 = w.get_authors(title)
                if au2 is None or sorted(au2) != sorted(au or []):
                    bad("contributors-by-listed-title", "contributors asked for under the listed title %r are %r; under the page's own title %r they are %r" % (title, au2, final, au))
    for img in sorted(needed_images):
        path = w.get_disk_path(img)
        data = open(path, "rb").read() if path and os.path.exists(path) else None
        if data != wiki.image_bytes(img):
            bad("image-file", "image %r: stored bytes %r differ from the served file" % (img, None if data is None else len(data)))
        if not w.imageinfo.get(img) if hasattr(w.imageinfo, "get") else True:
            bad("image-info", "no imageinfo entry for %r" % img)
        dp = w.get_image_description_page(img)
        if dp is None or dp.rawtext != wiki.current(img)[1]:
            bad("image-description", "description page of %r is %r" % (img, getattr(dp, "rawtext", None)))
        key.append((img, data is not None))
    if cfg["noimages"]:
        for kw in wiki.log:
            if "imageinfo" in str(kw.get("prop", "")) or "images" in str(kw.get("prop", "")).split("|"):
                bad("noimages-requests-images", "with --noimages the fetcher still asked for %r" % (kw.get("prop"),))
                break
    return viol, tuple(key)


class C11(InputProp):
    id = "C11"
    rule = ("every configuration of the synthetic-wiki feature product under FIFO delivery, and for the representative configurations every "
            "response delivery order within the deviation bound (explored by re-running with a choice prefix); distinct = distinct "
            "(configuration outcome, archive content) classes")
    assumptions = ("one wiki (no multi-wiki metabooks); no HTTP errors/retries; image downloads complete when requested (only API responses are re-ordered)",
                   "the synthetic wiki implements the API subset MwApi uses, including old-style query continuation for images/templates/contributors under result limits 1..3",
                   "gevent FIFO callback semantics as for C16")
    chunk = 8
    soft_timeout = 120.0
    hard_timeout = 300.0
    budget_s = {"quick": 900.0, "thorough": 7200.0}

    def prepare(self, tier):
        import mwlib.apps.make_nuwiki  # noqa
        self.space = Configs(tier)
        self.bound = 1 if tier == "quick" else 2

    def describe(self, case):
        return case

    def one(self, cfg, schedule):
        with contextlib.redirect_stdout(io.StringIO()), contextlib.redirect_stderr(io.StringIO()):
            run = run_fetch(cfg, schedule)
            try:
                viol, key = judge(cfg, run)
            finally:
                with contextlib.suppress(Exception):
                    run["hub"].shutdown()
                shutil.rmtree(run["dir"], ignore_errors=True)
                from mc.core.runner import close_leaked_sqlitedicts
                close_leaked_sqlitedicts()
        return viol, key, run["points"]

    def run_case(self, case):
        cfg = dict(case)
        sched = cfg.pop("sched")
        if sched != "explore":
            viol, key, points = self.one(cfg, list(sched))
            return {"key": key, "steps": len(points) + 1, "viol": viol, "counters": {"runs": 1, "max_outstanding": max(points or [0])}}
        # deviation-bounded exploration of delivery orders
        viol_all, keys, nruns, steps = [], set(), 0, 0
        stack = [((), 0)]
        while stack:
            prefix, devs = stack.pop()
            viol, key, points = self.one(cfg, list(prefix))
            nruns += 1
            steps += len(points)
            keys.add(key)
            for v in viol:
                v = dict(v)
                v["msg"] += " [delivery choices %r]" % (list(prefix),)
                v["sig"] = v["sig"]
                viol_all.append(v)
            if devs < self.bound:
                for i in range(len(prefix), len(points)):
                    for alt in range(1, points[i]):
                        stack.append((tuple(prefix) + (0,) * (i - len(prefix)) + (alt,), devs + 1))
            if len(viol_all) > 5:
                break
        seen = set()
        uniq = []
        for v in viol_all:
            if v["sig"] not in seen:
                seen.add(v["sig"])
                uniq.append(v)
        return {"key": keys, "steps": steps, "viol": uniq, "counters": {"runs": nruns, "schedules": nruns}}

    def finish(self, agg):
        errs = []
        if len(agg["keys"]) < 5:
            errs.append("vacuous: %d distinct outcomes" % len(agg["keys"]))
        return {"configurations": len(self.space) - len(self.space.rep), "schedule_explored_configurations": len(self.space.rep),
                "deviation_bound": self.bound}, errs


PROP = C11()
