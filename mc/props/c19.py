"""C19 – render status reported to the wiki is faithful to the job's real state.

System: the real nserve.Application with its queue proxy bound, in-process, to the real queue server world of
C16 (qs.jobs.workq + QPlugin + rpcserver.Server.handle_client under the controlled gevent hub).  Jobs are created
by the real do_render (writers rl and odf of one collection).  BFS over the histories of the collection's jobs;
in EVERY state do_render_status is called for both writers and for an unknown collection and compared with what the
real job objects say.  Plus: exhaustive filename enumeration for the Content-Disposition header.
"""
import contextlib
import io
import json
import re
import time
import urllib.parse

from mc.props import qs_explore as X
from mc.core.space import Seqs

WORKERS = ("w1", "w2")
WRITERS = ("rl", "odf")
JOBKEYS = ("mz", "rl", "odf")

_state = {}


def _cid():
    if "cid" not in _state:
        from mwlib.core import nserve
        from mwlib.core import metabook
        mb = metabook.Collection()
        mb.append_article("A")
        _state["metabook"] = mb.dumps()
        with contextlib.redirect_stdout(io.StringIO()):
            _state["cid"] = nserve.make_collection_id({"metabook": _state["metabook"], "base_url": "http://wiki.example/w/"})
    return _state["cid"]


def jobid(key):
    cid = _cid()
    return "%s:makezip" % cid if key == "mz" else "%s:render-%s" % (cid, key)


class InProc:
    host, port = "inproc", 0

    def __init__(self, world):
        self.world = world

    def send(self, name, **kwargs):
        w = self.world
        c = w.conns["n"]
        n0 = len(c.responses)
        w.send("n", name, **kwargs)
        w.loop()
        if len(c.responses) != n0 + 1:
            raise RuntimeError("queue server did not answer %s" % name)
        data = c.responses[-1]
        if data.get("error"):
            raise RuntimeError(data["error"])
        return data["result"]


def serve_a_neighbour():
    """Once per process, before anything is explored: this server process has already rendered ANOTHER collection with every
    writer and reported it finished (url, size, file name).  Nothing of that may show in the answers about the explored one."""
    if _state.get("neighbour"):
        return
    _state["neighbour"] = True
    from mwlib.core import nserve, metabook
    mb = metabook.Collection()
    mb.append_article("Neighbour")
    text = mb.dumps()
    w = new_world()
    try:
        with contextlib.redirect_stdout(io.StringIO()):
            cid = nserve.make_collection_id({"metabook": text, "base_url": "http://wiki.example/w/"})
        for i, wr in enumerate(WRITERS):
            post = {"writer": wr, "base_url": "http://wiki.example/w/"}
            if i == 0:
                post["metabook"] = text
            w.app.do_render(cid, post, is_new=(i == 0))
        for jid in list(w.wq.id2job):
            w.wq.finishjob(jid, result={"url": "http://cache/neighbour/%s" % jid, "size": 4711, "suggested_filename": "Neighbour book"})
        for wr in WRITERS:
            w.app.do_render_status(cid, {"writer": wr}, is_new=False)
    except Exception as exc:  # the prelude is part of the harness: if it cannot run, say so loudly
        raise RuntimeError("neighbour prelude failed: %r" % (exc,))
    finally:
        w.close()


def new_world():
    from mc.props.qs_world import World
    from mwlib.core import nserve
    from qs import rpcclient
    serve_a_neighbour()
    w = World(conn_names=WORKERS + ("c", "n"))
    w.njobs = 0
    w.jobspec = {}
    w.nrender = {"rl": 0, "odf": 0}
    w.seq = 0
    app = nserve.Application()
    # the world's clock is the only clock: wherever nserve (or a module-level cache of it) consults the time, it sees the one
    # the queue server sees; module-level caches of nserve are part of the world and start empty
    if hasattr(nserve, "time"):
        nserve.time = w.clock
    for name in dir(nserve):
        obj = getattr(nserve, name)
        if name.startswith("collid2") and hasattr(obj, "cache"):
            try:
                obj.cache.clear()
            except Exception:
                pass
    app.qserve = rpcclient.ServerProxy(rpc_client=InProc(w))
    w.app = app
    return w


RESULTS = {
    "full": lambda n: {"url": "http://cache/%d.out" % n, "size": 1000 + n, "suggested_filename": "Böök %d;x" % n},
    "nofn": lambda n: {"url": "http://cache/%d.out" % n, "size": 1000 + n},
    "none": lambda n: None,
    "empty": lambda n: {},
}


def apply_event(w, ev):
    k = ev[0]
    if k == "render":
        writer = ev[1]
        first = not any(w.nrender.values())
        w.nrender[writer] += 1
        post = {"writer": writer, "base_url": "http://wiki.example/w/"}
        if first:
            post["metabook"] = _state["metabook"]
        r = w.app.do_render(_cid(), post, is_new=first)
        w.trace.append(("do_render", writer, r))
    elif k == "setinfo":
        w.seq += 1
        # the shapes a Status object sends: progress/article before the first status line, an empty status line, a full one
        n = w.seq % 3
        info = {"progress": 12 + n, "article": "Foo"} if n == 1 else {"status": "", "progress": 40} if n == 2 else {"status": "s%d" % (w.seq % 2), "progress": w.seq % 2}
        w.send(ev[1], "qsetinfo", jobid=jobid(ev[2]), info=info)
    elif k == "finishr":
        w.seq += 1
        if ev[3] == "err":
            w.send(ev[1], "qfinish", jobid=jobid(ev[2]), error="boom%d" % (w.seq % 2))
        else:
            w.send(ev[1], "qfinish", jobid=jobid(ev[2]), result=RESULTS[ev[3]](w.seq % 2))
    elif k == "killj":
        w.send("c", "qkill", jobids=[jobid(ev[1])])
    elif k == "wd":
        w.clock.t += ev[1]
        w.tick()
        w.watchdog()
    else:
        raise ValueError(ev)


def shadow_of(w, a):
    alive, idle = [], []
    for name in WORKERS:
        c = a["conns"][name]
        if c[0] == "alive" and not c[1]:
            alive.append(name)
            if c[2] is None:
                idle.append(name)
    keys = [k for k in JOBKEYS if jobid(k) in a["jobs"]]
    return {"alive": alive, "idle": idle, "keys": keys,
            "undone": [k for k in keys if not a["jobs"][jobid(k)][3]],
            "deliv": {n: [k for k in JOBKEYS if jobid(k) in a["conns"][n][4]] for n in WORKERS},
            "nrender": dict(w.nrender), "sealed": False, "inpoll": False, "gen": 0, "njobs": len(keys)}


def enabled(sh, cfg):
    if sh["sealed"]:
        return []
    evs = []
    only = getattr(cfg, "events19", None)
    if not sh["inpoll"]:
        for wr in getattr(cfg, "writers19", WRITERS):
            if sh["nrender"][wr] < cfg.maxrender:
                evs.append(("render", wr))
    for wk in sh["idle"]:
        for ch in ("makezip", "render"):
            evs.append(("pull", wk, (ch,)))
        for k in sh["deliv"].get(wk, []):
            evs.append(("setinfo", wk, k))
            for kind in cfg.finish_results:
                evs.append(("finishr", wk, k, kind))
    for k in sh["keys"]:
        evs.append(("killj", k))
    if sh["undone"]:
        evs.append(("tick",))
    if sh["keys"]:
        for adv in cfg.wd_advances:
            evs.append(("wd", adv))
    for wk in sh["alive"]:
        evs.append(("eof", wk))
    if only:
        evs = [e for e in evs if e[0] in only and (e[0] != "pull" or e[2] == ("render",)) and (e[0] not in ("pull", "finishr", "setinfo") or e[1] == WORKERS[0])]
    return evs


def shadow_apply(sh, ev):
    sh = dict(sh)
    sh["inpoll"] = True
    k = ev[0]
    if k == "render":
        sh["sealed"] = True
    elif k in ("pull", "setinfo", "finishr"):
        sh["idle"] = [x for x in sh["idle"] if x != ev[1]]
    elif k == "eof":
        sh["alive"] = [x for x in sh["alive"] if x != ev[1]]
        sh["idle"] = [x for x in sh["idle"] if x != ev[1]]
    return sh


MZ_DONE_TEXT = "data fetched. waiting for render process.."


def header_problems(disp, suggested, ext):
    out = []
    if re.search(r"[\x00-\x1f\x7f]", disp):
        out.append("control character in header %r" % disp)
    m = re.match(r"^inline; filename=([^;]*)(?:;filename\*=(.*))?$", disp, re.S)
    if not m:
        return out + ["header %r does not have the form inline; filename=..[;filename*=..]" % disp]
    fn, star = m.group(1), m.group(2)
    if not fn or not fn.endswith("." + ext) or len(fn) <= len(ext) + 1:
        out.append("filename= value %r empty or without extension" % fn)
    if re.search(r'[^\x21-\x7e]|[;,"]', fn):
        out.append("filename= value %r is not a header-safe ASCII token" % fn)
    name = (suggested or "").strip() or "collection"
    if star is not None:
        if not star.startswith("UTF-8''") or re.search(r"[^\x21-\x7e]|[;,\" ]", star):
            out.append("filename*= value %r is not pure ASCII ext-value" % star)
        else:
            dec = urllib.parse.unquote(star[len("UTF-8''"):])
            if dec != name + "." + ext:
                out.append("filename*= decodes to %r, expected %r" % (dec, name + "." + ext))
    return out


def expected_status(m, writer):
    """what the status must say, from the REFERENCE MODEL of the queue run over the trace (first of finish/kill/timeout
    wins, info updates, jobs forgotten by the watchdog) - not from the implementation's job objects"""
    from mwlib.core import nserve

    def job(key):
        jid = jobid(key)
        if jid in m.dropped:
            return None
        return m.jobs.get(jid)

    j, mz = job(writer), job("mz")

    def mzinfo():
        if mz is None:
            return {}
        if mz["done"]:
            return {"status": MZ_DONE_TEXT}
        return dict(mz.get("info", {}))

    if j is None:
        return {"state": "progress", "status": mzinfo()}
    if j["done"] and j["error"]:
        return {"state": "failed", "error": j["error"]}
    if j["done"]:
        e = {"state": "finished", "content_type": nserve.name2writer[writer].content_type, "_result": j["result"]}
        if j["result"]:
            if "url" in j["result"] and "size" in j["result"]:
                e["url"] = j["result"]["url"]
                e["content_length"] = j["result"]["size"]
        return e
    return {"state": "progress", "status": dict(j.get("info", {})) if j.get("info") else mzinfo()}


def status_polls(w):
    """what a polling client does between any two events: ask for the status of both writers (read-only by contract)"""
    for wr in WRITERS:
        try:
            w.app.do_render_status(_cid(), {"writer": wr}, is_new=False)
        except Exception:
            pass


def judge(w, cfg, twin=True):
    from mwlib.core import nserve
    a = X.abstract(w)
    wq = w.wq
    a["extra"] = {"info": {jid: dict(j.info) for jid, j in wq.id2job.items()}, "nrender": dict(w.nrender)}
    viol = []
    for e in w.hub.errors:
        viol.append(("C19", "server-greenlet-error:" + e[1], "unhandled exception in a server greenlet: %r" % (e,), None))
    # expectations are computed from the real job objects BEFORE the status calls (which are read-only RPCs)
    model = X.run_model(w)
    exp = {wr: expected_status(model, wr) for wr in WRITERS}
    seen = {}
    for wr in WRITERS:
        try:
            r = w.app.do_render_status(_cid(), {"writer": wr}, is_new=False)
        except Exception as exc:
            viol.append(("C19", "status-raises", "do_render_status(%s) raised %s: %s" % (wr, type(exc).__name__, exc), None))
            continue
        seen[wr] = r.get("state")
        e = exp[wr]
        if r.get("collection_id") != _cid() or r.get("writer") != wr:
            viol.append(("C19", "status-identity", "answer %r is not about collection/writer %s" % (r, wr), None))
        if r.get("state") != e["state"]:
            viol.append(("C19", "state:%s-for-%s" % (r.get("state"), e["state"]),
                         "writer %s reported %r, job says %r" % (wr, r, e), None))
            continue
        if e["state"] == "failed" and r.get("error") != e["error"]:
            viol.append(("C19", "failed-error", "writer %s reported error %r, job error is %r" % (wr, r.get("error"), e["error"]), None))
        if e["state"] == "progress" and r.get("status") != e["status"]:
            viol.append(("C19", "progress-status", "writer %s reported status %r, expected %r" % (wr, r.get("status"), e["status"]), None))
        if e["state"] == "finished":
            for k in ("url", "content_length", "content_type"):
                if k in e and r.get(k) != e[k]:
                    viol.append(("C19", "finished-" + k, "writer %s reported %s=%r, job result says %r" % (wr, k, r.get(k), e[k]), None))
            res = e.get("_result")
            sugg = res.get("suggested_filename", "") if isinstance(res, dict) and "url" in res and "size" in res else ""
            disp = r.get("content_disposition")
            if not isinstance(disp, str):
                viol.append(("C19", "finished-disposition", "no content_disposition in %r" % (r,), None))
            else:
                for pmsg in header_problems(disp, sugg, nserve.name2writer[wr].file_extension):
                    viol.append(("C19", "finished-disposition", pmsg, None))
    try:
        r = w.app.do_render_status("0" * 16, {"writer": "rl"}, is_new=False)
        if r.get("state") != "progress" or r.get("status") not in ({}, None):
            viol.append(("C19", "unknown-collection", "unknown collection reported %r" % (r,), None))
    except Exception as exc:
        viol.append(("C19", "status-raises", "do_render_status(unknown) raised %s: %s" % (type(exc).__name__, exc), None))
    a["extra"]["seen"] = None
    w.c19_states = tuple(sorted(seen.items()))
    # the same history with a status poll in EVERY intermediate quiescent state: status requests are read-only, so the
    # polled twin must reach the same state and give answers that are right for its own jobs
    hist = list(getattr(w, "history", ()))
    if twin and hist:
        w2 = new_world()
        try:
            for events, choices in hist:
                X.run_poll(w2, events, choices)
                status_polls(w2)
            a2, _, viol2 = judge(w2, cfg, twin=False)
            for (f, sg, msg, idx) in viol2:
                viol.append((f, "polled:" + sg, "with a status poll after every event: " + msg, idx))
            if X.state_key(a2) != X.state_key(a) and not viol2:
                viol.append(("C19", "poll-not-read-only", "status polls between the events change the reached state", None))
        finally:
            w2.close()

    class M:
        pulling = {}

        @staticmethod
        def candidates(ch):
            return []
    return a, M, viol


def probe(history):
    w = X.execute(history)
    a, m, viol = judge(w, None)
    got = w.c19_states
    w.close()
    return [], got


def install_hooks():
    _cid()
    X.HOOKS.update({"new_world": new_world, "apply_event": apply_event, "enabled": enabled, "shadow_of": shadow_of,
                    "shadow_apply": shadow_apply, "judge": judge, "probe": probe, "channel_symmetry": False})
    X.WORKERS = WORKERS


def make_cfg(tier):
    if tier == "quick":
        return X.Cfg(bound=12, maxpoll=1, maxrender=1, finish_results=("full", "none", "err"), wd_advances=(20.0, 3700.0), probe=True), 240
    return X.Cfg(bound=16, maxpoll=1, maxrender=2, finish_results=("full", "nofn", "none", "empty", "err"),
                 wd_advances=(20.0, 3700.0), probe=True), 1800


# ------------------------------------------------------------------ filenames
FN_SYMBOLS = ["a", "B", "1", " ", ";", ":", '"', "'", ",", "/", "\\", "%", "=", "(", ")", "é", "ß", "中",
              "‮", " ", "\U0001F600", ".", "-", "́"]


def check_filenames(maxlen):
    from mwlib.core import nserve
    bad = []
    n = 0
    distinct = set()
    for seq in Seqs(FN_SYMBOLS, maxlen):
        name = "".join(seq)
        for ext in ("pdf", "odt"):
            n += 1
            try:
                disp = nserve.get_content_disposition(name, ext)
            except Exception as exc:
                bad.append((name, "raised %s: %s" % (type(exc).__name__, exc)))
                continue
            distinct.add(disp)
            for pmsg in header_problems(disp, name, ext):
                bad.append((name, pmsg))
    # every single printable character of the Basic Multilingual Plane (and a few astral ones), alone and inside a word:
    # compatibility characters may only turn into separators during ASCII folding
    import unicodedata
    chars = [chr(c) for c in range(0x20, 0x10000) if not (0xD800 <= c <= 0xDFFF) and unicodedata.category(chr(c))[0] != "C"]
    chars += ["\U0001F600", "\U0001D7D8", "\U0001F100", "\U0002F800"]
    for ch in chars:
        for name in (ch, "a" + ch + "b", ch + ch):
            n += 1
            try:
                disp = nserve.get_content_disposition(name, "pdf")
            except Exception as exc:
                bad.append((name, "raised %s: %s" % (type(exc).__name__, exc)))
                continue
            distinct.add(disp)
            for pmsg in header_problems(disp, name, "pdf"):
                bad.append((name, pmsg))
    return n, len(distinct), bad


class C19:
    id = "C19"
    families = ("C19",)

    def main(self, tier, seed, gate=True):
        install_hooks()
        cfg, cap = make_cfg(tier)
        t0 = time.time()
        n, nd, bad = check_filenames(3 if tier == "quick" else 4)
        from mc.core import report
        extra = {"filenames_checked": n, "filenames_distinct_headers": nd, "filename_alphabet": FN_SYMBOLS,
                 "filename_wall_s": round(time.time() - t0, 1)}
        self._fn_bad = bad
        # a render job that is killed and requested again: one writer, one worker, deeper (the replacement job lives under the
        # same id as the killed one)
        again = X.Cfg(bound=16 if tier == "quick" else 20, maxpoll=1, maxrender=3, finish_results=("full", "err"), wd_advances=(20.0, 3700.0), probe=False)
        again.events19 = {"render", "pull", "finishr", "killj", "wd"}
        again.writers19 = ("rl",)
        rc = X.search_phases(self.id, [("wide", cfg, cap), ("kill-and-render-again", again, 120 if tier == "quick" else 600)], tier, seed, self.families,
                      rule=("BFS over histories of one collection's fetch/render jobs on the REAL nserve.Application bound in-process to the "
                            "REAL queue server (controlled gevent hub); events: render(writer) via do_render, pull, setinfo, finish with "
                            "4 result shapes / error, kill, timeout tick, watchdog with clock past error-ttl and ttl, worker EOF; in every "
                            "state do_render_status for both writers and an unknown collection is compared with the real job objects; plus "
                            "every filename of <=3 (quick) / <=4 (thorough) symbols from a 24-symbol printable alphabet through get_content_disposition"),
                      assumptions=("status requests arrive between event-loop iterations (nserve's blocking RPC client)",),
                      gate=gate, extra_cov=extra,
                      pre_violations=[("filename:" + self._classify(msg), {"case": {"filename": name}, "msg": "%r: %s" % (name, msg), "idx": len(name)})
                                      for name, msg in bad])
        return rc

    @staticmethod
    def _classify(msg):
        return re.sub(r"%r|'[^']*'|\"[^\"]*\"|[^a-zA-Z*= -]", "", msg)[:40].strip().replace(" ", "-")

    def replay(self, record):
        install_hooks()
        case = record["case"]
        if "filename" in case:
            from mwlib.core import nserve
            probs = []
            for ext in ("pdf", "odt"):
                try:
                    probs += header_problems(nserve.get_content_disposition(case["filename"], ext), case["filename"], ext)
                except Exception as exc:
                    probs.append("raised %s: %s" % (type(exc).__name__, exc))
            sigs = ["filename:" + self._classify(p) for p in probs]
            want = record.get("sig")
            return {"violated": bool(probs), "sig": want if want in sigs else (sigs[0] if sigs else None), "msg": probs[:1], "all_sigs": sigs}
        return X.replay_history(record, self.families, make_cfg("quick")[0])


PROP = C19()
