"""C20 – output files appear atomically: a crash never leaves a partial file.

Engine: an LD_PRELOAD shim (mc/core/fsfault/shim.c) that counts every file-system operation touching the sandbox and, at
operation k, kills the process (crash), performs half a write and kills it (torn), or fails the operation once with
ENOSPC / EIO (error), optionally followed by a crash at a later operation (error+crash).  A recording run yields the
operation list of each producer history; then EVERY k (and every pair for the small producers) is executed, each in a
forked child of a warmed worker.  Oracle, evaluated by the surviving parent on the published path: absent, or byte-
identical to the complete previous version, or a complete new version.
"""
import ctypes
import errno
import io
import json
import os
import shutil
import sys
import tempfile
import zipfile

from mc.core.runner import InputProp
from mc.core.space import Items

NEEDS_PRELOAD = True
SHIM = os.path.join(os.path.dirname(os.path.dirname(os.path.dirname(os.path.abspath(__file__)))), ".cache", "fsshim.so")


def shim():
    lib = ctypes.CDLL(SHIM)
    lib.verif_arm.argtypes = [ctypes.c_char_p, ctypes.c_long, ctypes.c_int, ctypes.c_long, ctypes.c_int, ctypes.c_int]
    lib.verif_count.restype = ctypes.c_long
    return lib


# ----------------------------------------------------------------------------- producers
STATUS_CALLS = [dict(status="fetching", progress=10), dict(status="parsing", progress=50, article="Ä b"),
                dict(status="rendering", progress=90)]
OLD_STATUS = {"status": "previous run", "progress": 100}
IMAGE_BYTES = b"".join(bytes([i % 251]) * 40000 for i in range(3))
OLD_IMAGE = b"previous image bytes" * 50
TREE = {"nfo.json": b'{"format": "nuwiki"}', "revisions-1.txt": b"\n\x0c --page-- {}\nhello" * 2000, "images/a.png": b"\x89PNG" + b"x" * 70000,
        "images/safe/b.png": b"y" * 10, "siteinfo.json": b"{}" * 500}


def write_tree(root):
    for rel, data in TREE.items():
        p = os.path.join(root, rel)
        os.makedirs(os.path.dirname(p), exist_ok=True)
        with open(p, "wb") as f:
            f.write(data)


def make_old_zip(path):
    with zipfile.ZipFile(path, "w") as z:
        z.writestr("old.txt", "previous collection")


class Producer:
    name = ""
    published = ""

    def prepare(self, sbx, previous):
        """build the pre-state (not counted, shim not armed); returns nothing"""

    def run(self, sbx):
        """the code under test (shim armed)"""

    def judge(self, sbx, previous):
        """-> None if the published path is absent / complete previous / complete new; else message"""


class StatusProducer(Producer):
    name = "status"

    def prepare(self, sbx, previous):
        if previous:
            with open(os.path.join(sbx, "status.json"), "w") as f:
                json.dump(OLD_STATUS, f)

    def run(self, sbx):
        from mwlib.utils.status import Status
        s = Status(os.path.join(sbx, "status.json"))
        s.stdout = None
        for kw in STATUS_CALLS:
            s(**kw)

    def judge(self, sbx, previous):
        p = os.path.join(sbx, "status.json")
        if not os.path.exists(p):
            return "status file vanished although a previous version existed" if previous else None
        raw = open(p, "rb").read()
        try:
            d = json.loads(raw)
        except ValueError:
            return "status file does not parse as JSON: %r" % raw[:80]
        ok = [OLD_STATUS] if previous else []
        cur = {}
        for kw in STATUS_CALLS:
            cur = dict(cur)
            cur.update(kw)
            ok.append(dict(cur))
        if d not in ok:
            return "status file holds %r, which was never a complete status" % (d,)
        return None


def zip_problem(path, previous, old_bytes):
    if not os.path.exists(path):
        return "collection zip vanished although a previous version existed" if previous else None
    raw = open(path, "rb").read()
    if previous and raw == old_bytes:
        return None
    try:
        z = zipfile.ZipFile(io.BytesIO(raw))
        bad = z.testzip()
        if bad is not None:
            return "zip member %r is corrupt" % bad
        got = {n: z.read(n) for n in z.namelist()}
    except Exception as e:
        return "published zip is not readable: %s: %s (%d bytes)" % (type(e).__name__, e, len(raw))
    if got != TREE:
        return "published zip holds members %r, the source tree has %r" % (sorted(got), sorted(TREE))
    return None


class MakeZipProducer(Producer):
    name = "make_zip"

    def prepare(self, sbx, previous):
        os.makedirs(os.path.join(sbx, "out"))
        if previous:
            make_old_zip(os.path.join(sbx, "out", "collection.zip"))
        self.old = open(os.path.join(sbx, "out", "collection.zip"), "rb").read() if previous else None

    def run(self, sbx):
        from mwlib.apps import buildzip

        def stub_make_nuwiki(fsdir, metabook, wiki_options, pod_client, status):
            write_tree(fsdir)

        buildzip.make_nuwiki = stub_make_nuwiki
        buildzip.make_zip(output=os.path.join(sbx, "out", "collection.zip"), wiki_options={}, metabook=None, status=None)

    def judge(self, sbx, previous):
        return zip_problem(os.path.join(sbx, "out", "collection.zip"), previous, self.old)


class ZipBuilderProducer(MakeZipProducer):
    """the mw-zip command's own path: ZipBuilder.build (environment creation and the fetch are stubbed, everything that touches
    the output path is real)"""
    name = "zip_builder"

    def run(self, sbx):
        from mwlib.apps import buildzip

        def stub_make_nuwiki(fsdir, metabook, wiki_options, pod_client, status):
            write_tree(fsdir)

        class Env:
            metabook = object()

        buildzip.make_nuwiki = stub_make_nuwiki
        buildzip.make_wiki_env_from_options = lambda metabook, wiki_options: Env()
        cfg = buildzip.BuildConfig(output=os.path.join(sbx, "out", "collection.zip"), posturl=None, getposturl=0, keep_tmpfiles=False, status_file=None,
                                   config=None, imagesize=800, metabook=None, collectionpage=None, noimages=False, logfile=None, username=None,
                                   password=None, domain=None, title=None, subtitle=None, editor=None, script_extension=".php")
        res = buildzip.ZipBuilder(cfg).build(None)
        if not res.success:
            raise res.error or RuntimeError("build failed")


class CreateZipProducer(Producer):
    name = "create_zip"

    def prepare(self, sbx, previous):
        os.makedirs(os.path.join(sbx, "out"))
        write_tree(os.path.join(sbx, "src"))
        if previous:
            make_old_zip(os.path.join(sbx, "out", "collection.zip"))
        self.old = open(os.path.join(sbx, "out", "collection.zip"), "rb").read() if previous else None

    def run(self, sbx):
        from mwlib.apps import buildzip
        buildzip.ZipCreator.create_zip(os.path.join(sbx, "src"), os.path.join(sbx, "out", "collection.zip"))

    def judge(self, sbx, previous):
        return zip_problem(os.path.join(sbx, "out", "collection.zip"), previous, self.old)


class FakeResponse:
    def raise_for_status(self):
        pass

    def iter_bytes(self, chunk_size=16384):
        for i in range(0, len(IMAGE_BYTES), 40000):
            yield IMAGE_BYTES[i:i + 40000]

    def __enter__(self):
        return self

    def __exit__(self, *a):
        return False


class FakeClient:
    def stream(self, method, url):
        return FakeResponse()


class DownloadProducer(Producer):
    """the fetcher's own image download path: Fetcher._download_image -> download_to_file -> transport.download_with_retries"""
    name = "download"
    TITLE = "File:A.png"

    def prepare(self, sbx, previous):
        os.makedirs(os.path.join(sbx, "images"))
        if previous:
            with open(os.path.join(sbx, "images", "FileA.png"), "wb") as f:
                f.write(OLD_IMAGE)

    def run(self, sbx):
        import gevent.pool
        from mwlib.network import fetch

        class Out:
            path = sbx
            imgcount = 0
            get_imagepath = fetch.FsOutput.get_imagepath

        fetch._get_download_client = lambda url: FakeClient()
        f = fetch.Fetcher.__new__(fetch.Fetcher)
        f.fsout = Out()
        f.image_download_pool = gevent.pool.Pool(1)
        f.pool = gevent.pool.Pool()
        f._download_image("http://wiki.example/images/A.png", self.TITLE)
        f.pool.join(raise_error=True)

    def judge(self, sbx, previous):
        import re
        d = os.path.join(sbx, "images")
        p = os.path.join(d, "FileA.png")
        if not os.path.exists(p):
            if previous:
                return "image file vanished although a previous version existed"
        else:
            raw = open(p, "rb").read()
            if not (raw == IMAGE_BYTES or (previous and raw == OLD_IMAGE)):
                return "image file holds %d bytes, neither the %d served nor the previous version" % (len(raw), len(IMAGE_BYTES))
        # every name in the range of fs_escape (pure ASCII [-\w.~]) is the stored name of some legal image title, i.e. a name a
        # reader opens: nothing partial may ever sit under such a name (the temporary file must live outside that name space)
        for fn in sorted(os.listdir(d)):
            if fn == "FileA.png" or not re.match(r"^[-\w.~]+$", fn, re.A):
                continue
            raw = open(os.path.join(d, fn), "rb").read()
            if raw not in (IMAGE_BYTES, OLD_IMAGE):
                return "a partial download (%d bytes) sits under %r, which is the stored name of another legal image title" % (len(raw), fn)
        return None


PRODUCERS = {p.name: p for p in (StatusProducer(), MakeZipProducer(), ZipBuilderProducer(), CreateZipProducer(), DownloadProducer())}


def add_render_producer():
    from mc.props import c20_render
    PRODUCERS["render"] = c20_render.RenderProducer()


# ----------------------------------------------------------------------------- execution of one fault schedule
def run_child(prod, sbx, crash_k, torn, err_k, eno, logfd):
    """fork; child arms the shim and runs the producer; returns (exit status, ops counted by the child via exit code)"""
    sys.stdout.flush()
    sys.stderr.flush()
    pid = os.fork()
    if pid == 0:
        code = 0
        try:
            devnull = os.open(os.devnull, os.O_WRONLY)
            os.dup2(devnull, 1)
            os.dup2(devnull, 2)
            os.chdir(sbx)
            lib = shim()
            lib.verif_arm(sbx.encode(), crash_k, torn, err_k, eno, logfd)
            try:
                prod.run(sbx)
            except BaseException:
                code = 3
            lib.verif_disarm()
        except BaseException:
            code = 4
        finally:
            os._exit(code)
    _, status = os.waitpid(pid, 0)
    if os.WIFEXITED(status):
        return os.WEXITSTATUS(status)
    return -os.WTERMSIG(status)


def record(prod, previous):
    sbx = tempfile.mkdtemp(prefix="c20-rec-")
    fd, logp = tempfile.mkstemp(prefix="c20-log-")
    try:
        prod.prepare(sbx, previous)
        rc = run_child(prod, sbx, -1, 0, -1, 0, fd)
        os.close(fd)
        ops = []
        for line in open(logp):
            parts = line.rstrip("\n").split("\t")
            ops.append((parts[1], parts[2].replace(sbx, "<sbx>"), int(parts[3])))
        problem = prod.judge(sbx, previous)
        return rc, ops, problem
    finally:
        shutil.rmtree(sbx, ignore_errors=True)
        os.unlink(logp)


class C20(InputProp):
    id = "C20"
    level = "fault_enumeration"
    rule = ("for each producer history (status x3 dumps, make_zip, ZipBuilder.build (the mw-zip path), create_zip, download_to_file, render main; each with and without a "
            "complete previous version) the file-system operations are recorded, then the process is killed before EVERY operation "
            "(crash), after half of every write (torn), every operation fails once with ENOSPC and EIO (error), the disk fills up inside every write (short count, then ENOSPC for good), and for the small "
            "producers every (error at k1, crash at k2>k1) pair and every (crash of a first run at k1, crash of a second run in the same directory at k2 / completion) pair; non-trivial/distinct = distinct (producer, state of the published path) outcomes")
    assumptions = ("process kill, not power loss: completed system calls persist, user-space buffers are lost",
                   "the operation sequence of a producer is deterministic (a fault index beyond the end simply lets the producer finish)",
                   "libc-level interposition: open/openat/creat/write/pwrite/writev/sendfile/copy_file_range/close/rename*/link/symlink/unlink*/truncate/mkdir/rmdir/fsync")
    chunk = 8
    soft_timeout = 120.0
    hard_timeout = 240.0

    def prepare(self, tier):
        if "fsshim" not in os.environ.get("LD_PRELOAD", ""):
            raise RuntimeError("C20 needs the fs shim preloaded (the check script re-executes itself with LD_PRELOAD)")
        try:
            add_render_producer()
        except ImportError:
            pass
        cases = []
        self.recordings = {}
        for name, prod in PRODUCERS.items():
            for previous in (False, True):
                rc, ops, problem = record(prod, previous)
                self.recordings["%s/%s" % (name, "prev" if previous else "fresh")] = {"rc": rc, "nops": len(ops), "ops": ops[:400], "problem": problem}
                if rc != 0 or problem:
                    cases.append((name, previous, "baseline", 0, 0, 0))
                    continue
                n = len(ops)
                for k in range(1, n + 1):
                    cases.append((name, previous, "crash", k, 0, 0))
                    if ops[k - 1][0] == "write" and ops[k - 1][2] > 1:
                        cases.append((name, previous, "torn", k, 0, 0))
                if tier != "quick" or name != "render":
                    for k in range(1, n + 1):
                        cases.append((name, previous, "error", k, errno.ENOSPC, 0))
                        cases.append((name, previous, "error", k, errno.EIO, 0))
                # the disk fills up INSIDE a write: half of it is stored, the short count is returned without an error, and every
                # later write fails with ENOSPC (what the kernel does; a writer that ignores the count publishes a truncated file)
                for k in range(1, n + 1):
                    if ops[k - 1][0] == "write" and ops[k - 1][2] > 1:
                        cases.append((name, previous, "disk-full", k, errno.ENOSPC, 0))
                if name != "render":
                    for k1 in range(1, n + 1):
                        for k2 in range(k1 + 1, n + 3):
                            cases.append((name, previous, "error+crash", k1, errno.ENOSPC, k2))
                    # a run that was killed leaves its debris (temp files) behind; the producer then runs again in the same
                    # directory and is killed anywhere (or completes): every (kill point of run 1, kill point of run 2) pair
                    for k1 in range(1, n + 1):
                        for k2 in range(1, n + 2):
                            cases.append((name, previous, "crash+rerun", k1, 0, k2))
        self.space = Items(cases, name="fault-schedules")

    def run_case(self, case):
        name, previous, mode, k, eno, k2 = case
        prod = PRODUCERS[name]
        sbx = tempfile.mkdtemp(prefix="c20-")
        try:
            prod.prepare(sbx, previous)
            if mode == "baseline":
                rc = run_child(prod, sbx, -1, 0, -1, 0, -1)
            elif mode == "crash":
                rc = run_child(prod, sbx, k, 0, -1, 0, -1)
            elif mode == "torn":
                rc = run_child(prod, sbx, k, 1, -1, 0, -1)
            elif mode == "crash+rerun":
                run_child(prod, sbx, k, 0, -1, 0, -1)
                rc = run_child(prod, sbx, k2, 0, -1, 0, -1)
            elif mode == "error":
                rc = run_child(prod, sbx, -1, 0, k, eno, -1)
            elif mode == "disk-full":
                rc = run_child(prod, sbx, -1, 2, k, eno, -1)
            else:
                rc = run_child(prod, sbx, k2, 0, k, eno, -1)
            problem = prod.judge(sbx, previous)
            viol = []
            if problem:
                opk = self.recordings.get("%s/%s" % (name, "prev" if previous else "fresh"), {}).get("ops", [])
                at = opk[(k2 or k) - 1] if 0 < (k2 or k) <= len(opk) else ("?", "", 0)
                viol.append({"sig": "%s:%s:%s" % (name, mode, at[0]),
                             "msg": "%s, %s at operation %d%s (%s %s): %s" % (
                                 name, mode, k, ("/%d" % k2) if k2 else "", at[0], os.path.basename(at[1]), problem)})
            if mode == "baseline" and rc != 0:
                viol.append({"sig": "%s:producer-fails" % name, "msg": "%s fails without any injected fault (exit %d)" % (name, rc)})
            if rc in (4,) or rc < 0 and rc != -9:
                viol.append({"sig": "%s:child-died:%d" % (name, rc), "msg": "child ended with status %d" % rc})
            state = "absent"
            pub = getattr(prod, "published_path", None)
            return {"key": (name, previous, mode, rc, problem is None, self.pubstate(prod, sbx)), "steps": 1, "viol": viol,
                    "counters": {"fired_crash": 1 if rc == 137 else 0, "producer_raised": 1 if rc == 3 else 0}}
        finally:
            shutil.rmtree(sbx, ignore_errors=True)

    def pubstate(self, prod, sbx):
        for rel in ("status.json", "out/collection.zip", "images/FileA.png", "out/book.pdf"):
            p = os.path.join(sbx, rel)
            if os.path.exists(p):
                return (rel, os.path.getsize(p))
        return "absent"

    def describe(self, case):
        return {"producer": case[0], "previous_version": case[1], "mode": case[2], "k": case[3], "errno": case[4], "k2": case[5]}

    def finish(self, agg):
        errs = []
        for key, rec in self.recordings.items():
            if rec["nops"] < 3:
                errs.append("recording of %s saw only %d operations (shim not effective?)" % (key, rec["nops"]))
        return {"recordings": {k: {"nops": v["nops"], "ops_head": v["ops"][:12], "baseline_problem": v["problem"], "rc": v["rc"]}
                               for k, v in self.recordings.items()}}, errs


PROP = C20()
