"""C04 – template expansion computes what the template language says.

Families:
  expr     every #expr tree with <=2 operator nodes over 16 binary + 6 unary operators and 6 literals (quick); plus every tree with
           exactly 3 operator nodes over 3 literals (thorough); each serialised with minimal parentheses (reference table) and
           fully parenthesised; numeric comparison with the reference evaluator (mc/ref/expr_ref.py)
  tmpl     acyclic template universes (T1 may call T2) x pages built from parameters, defaults, positional/named calls, #if, #ifeq,
           #switch with fall-through/#default, whitespace variants; string equality with the reference interpreter (mc/ref/tmpl_ref.py)
  ident    every string over the brace-free part of SIGMA_CORE up to length 3 is returned unchanged
"""
import itertools

from mc.core.runner import InputProp, exc_signature
from mc.core.space import Seqs, Product, Concat, Items, Space
from mc.gen import wikitext as W
from mc.props.c01 import LangDB
from mc.ref import expr_ref as E
from mc.ref import tmpl_ref as T

LITS6 = ["0", "1", "2", "3", "0.5", "2.5"]
LITS3 = ["2", "3", "0.5"]


class ExprSpace(Space):
    def __init__(self, nops, literals, name):
        self.nops, self.lits, self.name = nops, literals, name
        self.n = E.count(nops, len(literals))

    def __len__(self):
        return self.n

    def __getitem__(self, i):
        return E.nth(self.nops, self.lits, i)


# ----------------------------------------------------------------------------- template programs
LEAVES = ["a", "b", "1", "01", "1.0", ""]
WSS = ["", " ", "\n"]


def lit(s):
    return ("lit", s)


def w(v, ws=""):
    return (ws, v, ws)


def values(depth, ws):
    """Values usable as argument / condition / comparand"""
    out = [[lit(x)] for x in LEAVES]
    out += [[("param", "1", None)], [("param", "1", [lit("d")])], [("param", "x", None)], [lit("a"), ("param", "1", None)]]
    if depth > 0:
        out += [[c] for c in constructs(depth - 1, ws)]
    return out


def constructs(depth, ws):
    out = []
    vals = values(depth, ws) if depth >= 0 else []
    small = [[lit("a")], [lit("1")], [lit("")], [("param", "1", None)]]
    argvals = vals if depth > 0 else [[lit(x)] for x in LEAVES] + [[("param", "1", None)]]
    # calls of T1 with the argument binding shapes
    for v in argvals:
        out.append(("call", "T1", [(None, ws, v, ws)]))
        out.append(("call", "T1", [("1", ws, v, ws)]))
        out.append(("call", "T1", [("x", ws, v, ws)]))
    for v in small:
        out.append(("call", "T1", [(None, ws, v, ws), (None, "", [lit("p2")], "")]))
        out.append(("call", "T1", [(None, "", [lit("first")], ""), ("1", ws, v, ws)]))     # later binding wins
        out.append(("call", "T1", [("1", ws, v, ws), (None, "", [lit("pos")], "")]))
        out.append(("call", "T1", [("x", ws, v, ws), ("x", "", [lit("again")], "")]))
    out.append(("call", "T1", []))
    for v in argvals:
        out.append(("if", (ws, v, ws), (ws, [lit("T")], ws), (ws, [lit("E")], ws)))
        for cmpv in ("1", "a", ""):
            out.append(("ifeq", (ws, v, ws), (ws, [lit(cmpv)], ws), (ws, [lit("Y")], ws), (ws, [lit("N")], ws)))
        out.append(("switch", (ws, v, ws), [([w([lit("a")], ws)], w([lit("A")], ws)), ([w([lit("1")], ws)], w([lit("ONE")], ws))], None))
        out.append(("switch", (ws, v, ws), [([w([lit("a")], ws), w([lit("b")], ws)], w([lit("AB")], ws)), ([w([lit("1")], ws)], None)], w([lit("DEF")], ws)))
        out.append(("switch", (ws, v, ws), [([w([lit("1")], ws)], w([lit("ONE")], ws)), ([w([lit("zz")], ws)], None)], None))
        out.append(("switch", (ws, v, ws), [([w([lit("b")], ws)], None)], w([lit("D2")], ws)))
    return out


T2_BODIES = [[lit("["), ("param", "1", None), lit("]")], [("param", "1", [lit("e")])], [("param", "x", None), lit("-"), ("param", "1", None)]]


def t1_bodies(ws):
    p1, px = ("param", "1", None), ("param", "x", None)
    out = [[lit("t")], [p1], [px], [("param", "1", [lit("d")])], [("param", "1", [("param", "x", [lit("dd")])])], [lit("<"), p1, lit(">")],
           [p1, px], [("param", " 1 ", None), lit("/"), ("param", " x ", None), lit("/"), ("param", "\nx", [lit("d")])],
           [("call", "T2", [(None, ws, [p1], ws)])], [("call", "T2", [("1", ws, [p1], ws), ("x", ws, [px], ws)])],
           [("call", "T2", [(None, "", [lit("k")], "")]), p1],
           [("if", (ws, [p1], ws), (ws, [lit("set")], ws), (ws, [lit("unset")], ws))],
           [("if", (ws, [("param", "1", [])], ws), (ws, [p1], ws), (ws, [px], ws))],
           [("ifeq", (ws, [p1], ws), (ws, [lit("1")], ws), (ws, [lit("one")], ws), (ws, [p1], ws))],
           [("switch", (ws, [p1], ws), [([w([lit("a")], ws)], w([lit("A")], ws)), ([w([lit("01")], ws)], w([lit("N")], ws))], w([px], ws))],
           [("switch", (ws, [p1], ws), [([w([lit("a")], ws), w([lit("b")], ws)], w([lit("AB")], ws))], None), lit("|")],
           # values composed of several pieces with a blank BETWEEN them (only the two ends of a value are trimmed)
           [("switch", (ws, [lit("a "), p1], ws), [([w([lit("a b")], ws)], w([lit("SP")], ws)), ([w([lit("ab")], ws)], w([lit("GL")], ws))], w([lit("D")], ws))],
           [("switch", (ws, [p1, lit(" b")], ws), [([w([lit("ab")], ws)], w([lit("GL")], ws)), ([w([lit("a b")], ws)], w([lit("SP")], ws))], w([lit("D")], ws))],
           [("switch", (ws, [lit("1 "), ("call", "T2", [(None, "", [lit("2")], "")]), lit(" "), p1], ws), [([w([lit("1 [2] b")], ws)], w([lit("SP")], ws)), ([w([lit("1[2]b")], ws)], w([lit("GL")], ws))], None)],
           [("ifeq", (ws, [lit("a "), p1], ws), (ws, [p1, lit(" b")], ws), (ws, [lit("same")], ws), (ws, [lit("differ")], ws))],
           [("if", (ws, [lit(" "), p1, lit(" ")], ws), (ws, [lit("x "), p1, lit(" y")], ws), (ws, [px, lit(" z")], ws))]]
    return out


class TmplSpace(Space):
    name = "tmpl"

    def __init__(self, depth):
        self.cases = []
        for ws in WSS:
            pages = constructs(depth, ws)
            for t1 in t1_bodies(ws):
                for t2i, t2 in enumerate(T2_BODIES):
                    uses_t2 = "T2" in repr(t1)
                    if not uses_t2 and t2i > 0:
                        continue
                    for pg in pages:
                        self.cases.append((t1, t2, [lit("<<"), pg, lit(">>")]))

    def __len__(self):
        return len(self.cases)

    def __getitem__(self, i):
        return self.cases[i]


class SwitchKeys(Space):
    """#switch with every ordered pair of case keys that are equal to the comparand as strings, as numbers, or not at all; the
    results are literals in both lexical orders or template parameters, so a winner picked by comparing results shows"""
    name = "tmpl"
    KEYS = ["1", "01", "1.0", "+1", "a", "A", "", "b"]

    def __init__(self):
        self.cases = []
        px = ("param", "x", None)
        results = [([lit("B")], [lit("A")]), ([lit("A")], [lit("B")]), ([px], [lit("A")]), ([lit("B")], [px]), ([px], [px])]
        for ws in ("", " "):
            for comp in self.KEYS:
                for k1 in self.KEYS:
                    for k2 in self.KEYS:
                        if k1 == k2:
                            continue
                        for r1, r2 in results:
                            for default in (None, w([lit("DEF")], ws)):
                                sw = ("switch", (ws, [lit(comp)], ws), [([w([lit(k1)], ws)], w(r1, ws)), ([w([lit(k2)], ws)], w(r2, ws))], default)
                                self.cases.append(([lit("t")], T2_BODIES[0], [lit("<<"), sw, lit(">>")]))

    def __len__(self):
        return len(self.cases)

    def __getitem__(self, i):
        return self.cases[i]


class SwitchDefault(Space):
    """#switch argument lists of <= 4 items over bare/keyed cases including '#default' in every position, repeated, and followed
    by bare items, for comparands that match a case, match only by fall-through, or match nothing"""
    name = "tmpl"

    def __init__(self, maxlen):
        import itertools
        W = lambda t: ("", [lit(t)], "")  # noqa
        items = [("bare", W("a")), ("bare", W("x")), ("bare", W("#default")), ("kv", W("a"), W("A")), ("kv", W("x"), W("X")),
                 ("kv", W("#default"), W("D1")), ("kv", W("#default"), W("D2"))]
        self.cases = []
        for n in range(1, maxlen + 1):
            for seq in itertools.product(items, repeat=n):
                if seq[-1] == items[2]:
                    continue  # (a last bare '#default' is returned as text; a result starting with '#' gets MediaWiki's implicit newline)
                for comp in ("a", "x", "zz"):
                    sw = ("switchx", ("", [lit(comp)], ""), list(seq))
                    self.cases.append(([lit("t")], T2_BODIES[0], [lit("<<"), sw, lit(">>")]))

    def __len__(self):
        return len(self.cases)

    def __getitem__(self, i):
        return self.cases[i]


class NumericCompare(Space):
    """#ifeq and #switch over every ordered pair of strings that are numeric for PHP, numeric only for Python, or look numeric"""
    name = "tmpl"
    WORDS = ["10", "1_0", "inf", "infinity", "nan", "NaN", "1e1", "10.0", ".5", "0.5", "5.", "5", "+5", "0x10", "16", "\u0661\u0660", "1 0", "1e", "e1", "-0", "0",
             "1e999", "2e999", "010", "١"]

    def __init__(self):
        self.cases = []
        W = lambda t: ("", [lit(t)], "")  # noqa
        for a in self.WORDS:
            for b in self.WORDS:
                eq = ("ifeq", W(a), W(b), W("Y"), W("N"))
                sw = ("switchx", W(a), [("kv", W(b), W("Y")), ("bare", W("N"))])
                for pg in (eq, sw):
                    self.cases.append(([lit("t")], T2_BODIES[0], [lit("<<"), pg, lit(">>")]))

    def __len__(self):
        return len(self.cases)

    def __getitem__(self, i):
        return self.cases[i]


class C04(InputProp):
    id = "C04"
    rule = ("expr: every expression tree up to the operator-node bound, serialised twice, evaluated by the real {{#expr:}} and compared "
            "numerically with the reference; tmpl: every (T1 body, T2 body, page construct, whitespace variant) compared as strings with "
            "the reference interpreter; ident: brace-free text unchanged; distinct = distinct result values")
    assumptions = ("exhaustive bound is by size (operator nodes / construct nesting), not the statement's depth 5/4 (10^20 trees)",
                   "digit formatting of #expr results is not compared (numeric equality, rel. tol. 1e-9)",
                   "trees whose reference value is undefined (division by zero, negative mod operand, pow domain) are skipped and counted")
    chunk = 3000
    soft_timeout = 20.0

    def prepare(self, tier):
        from mwlib.parser.expander import Expander
        from mwlib.parser import expr as exprmod
        from mwlib.utils.uniq import Uniquifier
        Uniquifier.random_string = "0123456789abcdef"
        self.Expander = Expander
        self.exprmod = exprmod
        self.db = LangDB("en", {})
        plain = [x for x in W.SIGMA_CORE if not any(c in x for c in "{}<")]
        fams = [ExprSpace(0, LITS6, "expr0"), ExprSpace(1, LITS6, "expr1"), ExprSpace(2, LITS6, "expr2"),
                TmplSpace(1 if tier == "quick" else 2), SwitchKeys(), SwitchDefault(4 if tier == "quick" else 5), NumericCompare(),
                Seqs(plain, 3, name="ident")]
        if tier != "quick":
            fams.append(ExprSpace(3, LITS3, "expr3"))
        self.space = Concat(*fams)
        self.ncases = 0

    def expand(self, text, db=None):
        return self.Expander(text, pagename="P", wikidb=db or self.db).expandTemplates()

    def describe(self, case):
        fam, c = case
        if fam.startswith("expr"):
            return {"family": fam, "minimal": E.minimal(c), "full": E.full(c)}
        if fam == "tmpl":
            return {"family": fam, "T1": T.ser_value(c[0]), "T2": T.ser_value(c[1]), "page": T.ser_value(c[2])}
        return {"family": fam, "text": "".join(c)}

    def run_case(self, case):
        fam, c = case
        self.ncases += 1
        if self.ncases % 20000 == 0:
            self.exprmod._cache.clear()
        if fam.startswith("expr"):
            return self.run_expr(c)
        if fam == "tmpl":
            return self.run_tmpl(c)
        text = "".join(c)
        try:
            res = self.expand(text)
        except Exception as e:
            return {"key": "exc", "viol": [{"sig": "ident:" + exc_signature(e), "msg": "expanding %r raised %r" % (text, e)}]}
        if res != text:
            return {"key": "changed", "viol": [{"sig": "ident-changed", "msg": "text without template syntax %r came back as %r" % (text, res)}]}
        return {"key": ("ident", len(text))}

    def run_expr(self, t):
        try:
            want = E.evaluate(t)
        except E.Undefined:
            return {"key": "undefined", "counters": {"expr_undefined_skipped": 1}}
        except OverflowError:
            return {"key": "undefined", "counters": {"expr_undefined_skipped": 1}}
        viol = []
        for how, s in (("minimal", E.minimal(t)), ("full", E.full(t))):
            text = "{{#expr: %s }}" % s
            try:
                res = self.expand(text)
            except Exception as e:
                viol.append({"sig": "expr:" + exc_signature(e), "msg": "%s raised %r" % (text, e)})
                continue
            try:
                got = float(res)
            except ValueError:
                viol.append({"sig": "expr-error:" + self.opsig(t), "msg": "%s -> %r, reference value %r" % (text, res[:120], want)})
                continue
            if not (got == want or abs(got - want) <= 1e-9 * max(abs(got), abs(want))):
                viol.append({"sig": "expr-value:%s:%s" % (how, self.opsig(t)), "msg": "%s -> %r, reference value %r" % (text, res, want)})
        return {"key": ("expr", round(want, 6)), "steps": 2, "viol": viol}

    @staticmethod
    def opsig(t):
        """operator pair (parent, child) of the tree – names the precedence relation that is at stake"""
        ops = []

        def rec(n):
            if isinstance(n, str):
                return
            ops.append(("u" if n[0] == "u" else "") + n[1])
            for c in n[2:]:
                rec(c)
        rec(t)
        return "/".join(ops[:2])

    def run_tmpl(self, c):
        t1, t2, page = c
        pages = {"T1": T.ser_value(t1), "T2": T.ser_value(t2)}
        text = T.ser_value(page)
        want = T.Interp({"T1": t1, "T2": t2}).value(page, {})
        try:
            res = self.expand(text, LangDB("en", pages))
        except Exception as e:
            return {"key": "exc", "viol": [{"sig": "tmpl:" + exc_signature(e), "msg": "expanding %r with %r raised %r" % (text, pages, e)}]}
        if res != want:
            kind = page[1][0]
            return {"key": "diff", "viol": [{"sig": "tmpl-value:%s" % kind,
                                             "msg": "page %r with T1=%r T2=%r expands to %r, the template language defines %r" % (
                                                 text, pages["T1"], pages["T2"], res, want)}]}
        return {"key": ("tmpl", want)}

    def finish(self, agg):
        errs = []
        if len(agg["keys"]) < 300:
            errs.append("vacuous: %d distinct values" % len(agg["keys"]))
        return {"families": self.space.family_sizes()}, errs


PROP = C04()
