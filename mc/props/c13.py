"""C13 – metabooks round-trip through JSON; collection ids are content-determined.

Space: every metabook with <= 2 (quick) / <= 3 (thorough) top-level items over 24 articles + 14 chapters, crossed (for <= 2
items) with the presence/absence of the optional collection fields; every serialisation variant of each; and – across the
whole space – injectivity of the collection id (all pairs, by grouping ids) plus every single-field mutation of the wiki
coordinates.
"""
import io
import os
import json
import sys

from mc.core.runner import InputProp, stable_hash
from mc.core.space import Seqs, Product, Concat, Items

TITLES = ["A", "B", "Ä b", "a/b"]
REVS = [None, "1", "2"]
DISPS = [None, "d"]
ARTICLES = [("A", t, r, d) for t in TITLES for r in REVS for d in DISPS]
CH_ARTS = [("A", "A", None, None), ("A", "B", "1", None)]
CHAPTERS = [("C", ct, tuple(arts)) for ct in ("", "Kapitel Ä")
            for arts in ([()] + [(a,) for a in CH_ARTS] + [(a, b) for a in CH_ARTS for b in CH_ARTS])]
ITEMS = ARTICLES + CHAPTERS
LICENSE = {"name": "L", "mw_rights_text": "free", "mw_rights_url": "http://l.example/", "z": {"b": 1, "a": 2}}
FIELDSETS = [(t, s, e) for t in (None, "T ü") for s in (None, "sub") for e in (None, "ed", ("lic", "ed"), ("wikis", "ed"))]
COORDS = {"base_url": "http://wiki.example/w/", "script_extension": ".php", "login_credentials": "u:p:d"}


def _m_append(mb_mod, x):
    x.append_article("Added Later", revision="77")


def _m_title(mb_mod, x):
    x.title = "renamed"
    x.subtitle = "renamed too"


def _m_first_item(mb_mod, x):
    if x.items:
        x.items[0].title = "changed"
        if getattr(x.items[0], "items", None):
            x.items[0].items.pop()
    else:
        x.items.append(mb_mod.Chapter(title="new chapter"))


def _m_drop_items(mb_mod, x):
    del x.items[:]


def _m_wikis(mb_mod, x):
    x.wikis.append(mb_mod.WikiConf(baseurl="http://other.example/w/"))
    x.licenses.append({"name": "other"})


MUTS = {"append": _m_append, "title": _m_title, "first-item": _m_first_item, "drop-items": _m_drop_items, "wikis": _m_wikis}
MUT_SEQS = [(a,) for a in MUTS] + [(a, b) for a in MUTS for b in MUTS]


def build(spec):
    """spec = (items, fields) -> metabook.Collection built through the public constructors"""
    from mwlib.core import metabook
    items, fields = spec
    c = metabook.Collection()
    for it in items:
        if it[0] == "A":
            c.items.append(metabook.Article(title=it[1], revision=it[2], displaytitle=it[3]))
        else:
            ch = metabook.Chapter(title=it[1])
            for a in it[2]:
                ch.items.append(metabook.Article(title=a[1], revision=a[2], displaytitle=a[3]))
            c.items.append(ch)
    t, s, e = fields
    if t is not None:
        c.title = t
    if s is not None:
        c.subtitle = s
    if isinstance(e, tuple) and e[0] == "wikis":
        # a multi-wiki metabook: typed WikiConf entries (and the other typed helper objects) nested in the collection
        c.wikis.append(metabook.WikiConf(ident="en", baseurl="http://en.example/w/"))
        c.wikis.append(metabook.WikiConf(ident="de", baseurl="http://de.example/w/", format="nuwiki"))
        c.licenses.append(metabook.License(name="L2", wikitext="free"))
        c.sources = [metabook.Source(name="S", url="http://s.example/")] if hasattr(metabook, "Source") else []
        c.editor = e[1]
    elif isinstance(e, tuple):
        # an untyped (plain dict) entry nested in the metabook, as MediaWiki's Collection extension sends for licenses
        c.licenses.append(dict(LICENSE))
        c.editor = e[1]
    elif e is not None:
        c.editor = e
    return c


def plain(obj):
    """recursive _json(): the plain-data view used for equality"""
    if hasattr(obj, "_json"):
        return {k: plain(v) for k, v in obj._json().items()}
    if isinstance(obj, dict):
        return {k: plain(v) for k, v in obj.items()}
    if isinstance(obj, (list, tuple)):
        return [plain(x) for x in obj]
    return obj


def typed(obj):
    """the classes of every nested value (typed objects must come back as typed objects, not as look-alike dicts)"""
    if hasattr(obj, "_json"):
        return (type(obj).__name__, tuple(sorted((k, typed(v)) for k, v in obj.__dict__.items() if not k.startswith("_") and v is not None)))
    if isinstance(obj, dict):
        return ("dict", tuple(sorted((k, typed(v)) for k, v in obj.items())))
    if isinstance(obj, (list, tuple)):
        return ("list", tuple(typed(x) for x in obj))
    return type(obj).__name__


def reverse_keys(x):
    if isinstance(x, dict):
        return {k: reverse_keys(x[k]) for k in reversed(list(x))}
    if isinstance(x, list):
        return [reverse_keys(y) for y in x]
    return x


class C13(InputProp):
    id = "C13"
    rule = ("every metabook over 24 articles + 14 chapters up to the item bound (x optional-field presence for <=2 items); per metabook: "
            "round trip, fixed point, id invariance under 7 serialisation variants, 5 single-field request mutations, default-sharing probe, "
            "every history load / modify the loaded copy (<= 2 of 5 modifications) / load + identify again on the same text; "
            "across the space: id injectivity by grouping; distinct = distinct collection ids")
    assumptions = ("titles/revisions/fields from small fixed domains",)
    chunk = 500
    soft_timeout = 30.0

    def prepare(self, tier):
        from mwlib.core import metabook, nserve, serve
        from mwlib.utils import myjson
        self.metabook, self.nserve, self.serve, self.myjson = metabook, nserve, serve, myjson
        small = Product(Seqs(ITEMS, 2), FIELDSETS, name="small-x-fields")
        # pairs of metabooks that differ in ONE string field, and there only in blanks (their number or their position)
        blanks = [("New York", "NewYork"), ("a b", "ab"), ("a  b", "a b"), ("a reader", "area der"), ("ab", " ab"), ("Ä b c", "Äb c"),
                  # (wave 11) titles that differ only in their Unicode normalisation form are different titles
                  ("Cafe\u0301", "Caf\u00e9"), ("\u212b", "\u00c5")]
        pairs = []
        for v1, v2 in blanks:
            art = lambda t, r=None, d=None: ("A", t, r, d)  # noqa
            none = (None, None, None)
            pairs.append((((art(v1),), none), ((art(v2),), none)))                                  # article title
            pairs.append((((art("T", "1", v1),), none), ((art("T", "1", v2),), none)))              # display title
            pairs.append((((("C", v1, (art("T"),)),), none), ((("C", v2, (art("T"),)),), none)))    # chapter title
            pairs.append((((("C", "c", (art(v1),)),), none), ((("C", "c", (art(v2),)),), none)))    # article inside a chapter
            pairs.append((((art("T"),), (v1, None, None)), ((art("T"),), (v2, None, None))))        # collection title
            pairs.append((((art("T"),), (None, v1, None)), ((art("T"),), (None, v2, None))))        # subtitle
            pairs.append((((art("T"),), (None, None, v1)), ((art("T"),), (None, None, v2))))        # editor
        pairfam = Items(pairs, name="pair")
        # values that are falsy in Python without being "not given": revision 0, empty display title / subtitle / editor / title
        falsy_items = [("A", "T", 0, None), ("A", "T", "", None), ("A", "T", None, ""), ("A", "", None, None), ("A", "T", "1", "d"), ("C", "", (("A", "U", 0, ""),))]
        falsy_fields = [(None, None, None), ("", None, None), (None, "", None), (None, None, ""), ("", "", "")]
        falsy = Product(Seqs(falsy_items, 2, minlen=1), falsy_fields, name="small-x-fields")
        # the same request identified by other interpreter processes (other hash seeds: set/dict iteration order differs there)
        procs = Items([((), (None, None, None)), ((("A", "T", None, None),), (None, None, None)), ((("A", "T", "1", "d"), ("C", "c", (("A", "U", None, None),))), ("t", "s", "e")),
                       ((("A", "Ä b", None, None), ("A", "T", "7", None)), (None, None, ("lic", "ed")))], name="other-processes")
        if tier == "quick":
            self.space = Concat(small, falsy, pairfam, procs, name="mb")
        else:
            big = Product(Seqs(ITEMS, 3, minlen=3), [(None, None, None), (None, None, ("lic", "ed"))], name="three-items")
            self.space = Concat(small, big, falsy, pairfam, procs, name="mb")

    def with_nulls(self, x):
        if isinstance(x, list):
            return [self.with_nulls(y) for y in x]
        if not isinstance(x, dict):
            return x
        out = {k: self.with_nulls(v) for k, v in x.items()}
        cls = {"collection": self.metabook.Collection, "article": self.metabook.Article, "chapter": self.metabook.Chapter}.get(str(x.get("type", "")).lower())
        if cls is not None:
            for k in dir(cls):
                dv = getattr(cls, k)
                if k.startswith("_") or k == "type" or callable(dv) or isinstance(dv, property):
                    continue
                if k not in out or out[k] == dv:
                    out[k] = None  # absent, or present with its default value: both are "not given"
        return out

    def cid(self, params, which="nserve"):
        old = sys.stdout
        sys.stdout = io.StringIO()
        try:
            return (self.nserve if which == "nserve" else self.serve).make_collection_id(params)
        finally:
            sys.stdout = old

    CHILD = ("import sys, json, io; p = json.load(sys.stdin); real = sys.stdout; sys.stdout = io.StringIO(); "
             "from mwlib.core import nserve, serve; from mwlib.utils import myjson; "
             "out = {'nserve': nserve.make_collection_id(p), 'serve': serve.make_collection_id(p), 'dump': myjson.loads(p['metabook']).dumps()}; "
             "sys.stdout = real; print(json.dumps(out))")

    def run_procs(self, spec):
        import subprocess
        src = os.path.dirname(os.path.dirname(os.path.dirname(os.path.abspath(self.nserve.__file__))))
        mb = build(spec)
        params = dict(COORDS, metabook=mb.dumps())
        here = {"nserve": self.cid(params, "nserve"), "serve": self.cid(params, "serve"), "dump": self.myjson.loads(params["metabook"]).dumps()}
        viol = []
        seen = set()
        for seed in ("1", "2", "3", "4", "5", "6"):
            env = dict(os.environ, PYTHONHASHSEED=seed, PYTHONPATH=src, VERIF_NO_REEXEC="1")
            r = subprocess.run([sys.executable, "-W", "ignore", "-c", self.CHILD], input=json.dumps(params), capture_output=True, text=True, env=env, timeout=120)
            try:
                there = json.loads(r.stdout.strip().splitlines()[-1])
            except Exception:
                viol.append({"sig": "other-process-failed", "msg": "child interpreter (hash seed %s) gave %r %r" % (seed, r.stdout[-200:], r.stderr[-300:])})
                break
            for k in ("nserve", "serve", "dump"):
                seen.add((k, there[k]))
                if there[k] != here[k] and not any(v["sig"].endswith(k) for v in viol):
                    viol.append({"sig": "differs-between-processes:" + k, "msg": "%s of the same request is %r in an interpreter with hash seed %s and %r here" % (
                        "collection id (%s)" % k if k != "dump" else "dump", there[k][:80], seed, here[k][:80])})
        return {"key": ("procs", here["nserve"]), "steps": 6, "viol": viol, "counters": {"child_interpreters": 6}}

    def run_case(self, case):
        fam, spec = case
        if fam == "pair":
            return self.run_pair(spec)
        if fam == "other-processes":
            return self.run_procs(spec)
        viol = []
        mb = build(spec)
        p0 = plain(mb)
        s = mb.dumps()
        mb2 = self.myjson.loads(s)
        p2 = plain(mb2)
        if type(mb2) is not type(mb):
            viol.append({"sig": "roundtrip-type", "msg": "loads(dumps(m)) is a %s" % type(mb2).__name__})
        elif p2 != p0:
            viol.append({"sig": "roundtrip-unequal", "msg": "loads(dumps(m)) = %r, m = %r" % (p2, p0)})
        elif typed(mb2) != typed(mb):
            viol.append({"sig": "roundtrip-types", "msg": "loads(dumps(m)) has the same data but other classes: %r vs %r" % (typed(mb2), typed(mb))})
        else:
            # same nesting and order with real objects
            def shape(o):
                return [(type(i).__name__, getattr(i, "title", None), getattr(i, "revision", None), shape(i) if hasattr(i, "items") else None)
                        for i in o.items]
            if shape(mb2) != shape(mb):
                viol.append({"sig": "roundtrip-shape", "msg": "%r vs %r" % (shape(mb2), shape(mb))})
        s2 = mb2.dumps() if hasattr(mb2, "dumps") else None
        if s2 != s:
            viol.append({"sig": "not-fixed-point", "msg": "dumps(loads(dumps(m))) differs from dumps(m)"})
        # generic loads/dumps through myjson as well
        s3 = self.myjson.dumps(mb)
        if plain(self.myjson.loads(s3)) != p0:
            viol.append({"sig": "roundtrip-unequal-myjson", "msg": "myjson.loads(myjson.dumps(m)) differs"})
        mn = self.myjson.loads(json.dumps(self.with_nulls(p0)))
        dn = mn.dumps()
        if self.myjson.loads(dn).dumps() != dn:
            viol.append({"sig": "not-fixed-point:explicit-nulls", "msg": "a metabook loaded from a text with explicit nulls for its absent fields is not a fixed point of dumps/loads: %r" % (dn[:300],)})
        # collection id: invariance under serialisation variants
        base = dict(COORDS)
        variants = {
            "canonical": s,
            "reversed-keys": json.dumps(reverse_keys(p0)),
            "indent0": json.dumps(p0, indent=0),
            "compact": json.dumps(p0, separators=(",", ":")),
            "non-ascii": json.dumps(p0, ensure_ascii=False),
            "reserialised": s2 or s,
            "myjson": s3,
            # an absent optional field spelled as an explicit null (what a PHP client's json_encode produces)
            "explicit-nulls": json.dumps(self.with_nulls(p0)),
        }
        ids = {}
        for which in ("nserve", "serve"):
            ref = None
            for vn, vs in variants.items():
                i = self.cid(dict(base, metabook=vs), which)
                if ref is None:
                    ref = i
                elif i != ref:
                    viol.append({"sig": "id-varies:%s:%s" % (which, vn), "msg": "collection id %s under variant %s, %s canonical" % (i, vn, ref)})
            ids[which] = ref
            # wiki URLs that differ in one component (port, user info, host, path, scheme) are different wikis
            urls = ["http://wiki.example/w/", "http://wiki.example:8080/w/", "http://wiki.example:8081/w/", "http://alice@wiki.example/w/",
                    "http://bob@wiki.example/w/", "http://alice:pw@wiki.example/w/", "https://wiki.example/w/", "http://wiki.example/w", "http://wiki.example/w/x/",
                    "http://wiki2.example/w/", "http://wiki.example/w/?a=1", "http://wiki.example/w/#f"]
            seen_ids = {}
            for u in urls:
                i = self.cid(dict(base, base_url=u, metabook=s), which)
                if i in seen_ids:
                    viol.append({"sig": "id-ignores:%s:base_url-component" % which, "msg": "wiki URLs %r and %r get the same collection id %s" % (seen_ids[i], u, i)})
                    break
                seen_ids[i] = u
            # single-field mutations of the request must change the id
            for k in COORDS:
                for newv in (COORDS[k] + "x", None):
                    p = dict(base, metabook=s)
                    p[k] = newv
                    if self.cid(p, which) == ref:
                        viol.append({"sig": "id-ignores:%s:%s" % (which, k), "msg": "id unchanged when %s becomes %r" % (k, newv)})
            if spec[0]:
                # mutate one article's revision / title / the order
                mut = []
                items = list(spec[0])
                first = items[0]
                if first[0] == "A":
                    mut.append(("revision", [("A", first[1], "9", first[3])] + items[1:]))
                    mut.append(("title", [("A", first[1] + "x", first[2], first[3])] + items[1:]))
                if len(items) >= 2 and items[0] != items[1]:
                    mut.append(("order", [items[1], items[0]] + items[2:]))
                for mn, its in mut:
                    m2 = build((tuple(its), spec[1]))
                    if self.cid(dict(base, metabook=m2.dumps()), which) == ref:
                        viol.append({"sig": "id-ignores:%s:%s" % (which, mn), "msg": "id unchanged when %s differs" % mn})
        # histories on ONE serialized text: load, modify what was loaded, load / identify again (every sequence of <= 2
        # modifications from MUTS, each followed by a fresh load and both id functions).  loads() and the ids are functions
        # of the text alone, whatever was done to earlier results.
        nhist = 0
        for seq in MUT_SEQS:
            x = self.myjson.loads(s)
            for mname in seq:
                MUTS[mname](self.metabook, x)
                y = self.myjson.loads(s)
                nhist += 1
                if plain(y) != p0:
                    viol.append({"sig": "loads-depends-on-history:" + mname, "msg": "after %s on an earlier result, loads(text) = %r, the text says %r" % (
                        "+".join(seq), plain(y), p0)})
                    break
                bad = [w for w in ("nserve", "serve") if self.cid(dict(base, metabook=s), w) != ids[w]] if mname is seq[-1] else []
                if bad:
                    viol.append({"sig": "id-depends-on-history:" + mname, "msg": "after %s on a loaded copy the same request gets another collection id (%s)" % ("+".join(seq), bad)})
                    break
                x = y
            if viol:
                break
        # class-level defaults are never shared between instances
        other = self.metabook.Collection()
        if other.items or other.licenses or other.wikis:
            viol.append({"sig": "shared-defaults", "msg": "a fresh Collection starts with items=%r" % (other.items,)})
        ch = self.metabook.Chapter()
        if ch.items:
            viol.append({"sig": "shared-defaults", "msg": "a fresh Chapter starts with items=%r" % (ch.items,)})
        return {"key": ids["nserve"], "steps": 2 * (len(variants) + 6) + 4 + nhist, "viol": viol,
                "collect": [(ids["nserve"], ids["serve"], stable_hash(json.dumps(p0, sort_keys=True)))]}

    def run_pair(self, spec):
        a, b = spec
        ma, mb = build(_t(a)), build(_t(b))
        viol = []
        for which in ("nserve", "serve"):
            ia = self.cid(dict(COORDS, metabook=ma.dumps()), which)
            ib = self.cid(dict(COORDS, metabook=mb.dumps()), which)
            if ia == ib and plain(ma) != plain(mb) and not viol:
                viol.append({"sig": "id-collision", "msg": "two different metabooks share collection id %s (%s): %r and %r" % (ia, which, plain(ma), plain(mb))})
        return {"key": (ia, ib), "viol": viol}

    def finish(self, agg):
        errs = []
        byid = {}
        for (i1, i2, ph) in agg["collect"]:
            byid.setdefault(("nserve", i1), set()).add(ph)
            byid.setdefault(("serve", i2), set()).add(ph)
        coll = [(k, v) for k, v in byid.items() if len(v) > 1]
        if coll:
            # locate one colliding pair for the replay file
            k, phs = coll[0]
            found = []
            for idx in range(len(self.space)):
                fam, spec = self.space[idx]
                ph = stable_hash(json.dumps(plain(build(spec)), sort_keys=True))
                if ph in phs and not any(f[1] == ph for f in found):
                    found.append((spec, ph))
                if len(found) == 2:
                    break
            agg["sig_counts"]["id-collision"] += len(coll)
            agg["viol"].append({"sig": "id-collision", "idx": 0, "case": ("pair", (found[0][0], found[1][0])) if len(found) == 2 else ("pair", None),
                                "msg": "%d collection ids are shared by different metabooks (e.g. %s)" % (len(coll), k[1])})
        n_ids = len(set(i for (i, _, _) in agg["collect"]))
        n_mb = len(set(ph for (_, _, ph) in agg["collect"]))
        if n_mb < 100:
            errs.append("vacuous: %d distinct metabooks" % n_mb)
        return {"distinct_metabooks": n_mb, "distinct_ids": n_ids, "pairs_compared_by_grouping": n_mb * (n_mb - 1) // 2}, errs


def _t(x):
    if isinstance(x, list):
        return tuple(_t(y) for y in x)
    return x


PROP = C13()
