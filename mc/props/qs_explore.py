"""Explicit-state exploration of the real queue server (C16, C17, C18).

Nodes are *quiescent* server states (event loop drained); a transition is one event-loop iteration
("poll"): an ordered list of 1..K I/O / timer events that became ready together, followed by gevent
running every callback to quiescence in FIFO order.  Cost of a transition = number of events + 1 (the
`let-the-event-loop-run` step of the property's alphabet); histories are explored up to a total cost bound.
Live greenlets cannot be copied, so a node *is* the history reaching it: every expansion rebuilds fresh real
objects and replays the prefix (a divergence while replaying a prefix is a hard harness error).
"""
import itertools
import json
import time
from collections import Counter

from mc.core import pool as poolmod
from mc.core import report
from mc.core.runner import stable_hash
from mc.ref.queue_ref import QueueModel

WORKERS = ("w1", "w2", "w3")
CHANNELS = ("a", "b")


class Cfg:
    def __init__(self, **kw):
        self.workers = WORKERS
        self.channels = CHANNELS
        self.maxjobs = 4
        self.prios = (0, 1)
        self.timeouts = (10.0,)
        self.pullsets = (("a",), ("b",), ("a", "b"), ())
        self.maxpoll = 2
        self.bound = 6
        self.ops = {"add", "pull", "finish", "kill", "tick", "eof"}
        self.maxrestarts = 0
        self.kill_by_holder = True
        self.finish_kinds = ("ok", "err")
        self.probe = True
        self.__dict__.update(kw)


# other closed systems built on the same server world (C19) replace these entry points
HOOKS = {"new_world": None, "apply_event": None, "enabled": None, "shadow_of": None, "shadow_apply": None,
         "judge": None, "probe": None, "channel_symmetry": True}


# explicit job ids handed out by the "add" event: j1, j2, ... unless a phase chooses other spellings (e.g. falsy ones)
IDNAMES = None


def jobname(n):
    if IDNAMES and n <= len(IDNAMES):
        return IDNAMES[n - 1]
    return "j%d" % n


class RestartFailed(Exception):
    """saving or loading the queue state raised: the server cannot be stopped and started again from this state"""


# ----------------------------------------------------------------------------- executing histories
def new_world():
    if HOOKS["new_world"]:
        return HOOKS["new_world"]()
    from mc.props.qs_world import World
    w = World(conn_names=WORKERS + ("c", "c2", "p"))
    w.njobs = 0
    w.jobspec = {}
    return w


def apply_event(w, ev):
    k = ev[0]
    if k == "add":
        w.njobs += 1
        jid = jobname(w.njobs)
        w.jobspec[jid] = (ev[1], ev[2])
        w.send("c", "qadd", channel=ev[1], priority=ev[2], jobid=jid, timeout=ev[3], payload={"n": w.njobs})
    elif k == "readd":
        ch, pr = w.jobspec[ev[1]]
        w.send("c", "qadd", channel=ch, priority=pr, jobid=ev[1], timeout=10.0, payload={"again": 1})
    elif k == "pull":
        w.send(ev[1], "qpull", channels=list(ev[2]))
    elif k == "finish":
        w.nfinish = getattr(w, "nfinish", 0) + 1
        if ev[3] == "ok":
            w.send(ev[1], "qfinish", jobid=ev[2], result={"n": w.nfinish})
        elif ev[3] in FALSY_RESULTS:
            # results that are valid JSON values and falsy in Python
            w.send(ev[1], "qfinish", jobid=ev[2], result=FALSY_RESULTS[ev[3]])
        else:
            w.send(ev[1], "qfinish", jobid=ev[2], error="boom%d" % w.nfinish)
    elif k == "kill":
        w.send(ev[1], "qkill", jobids=[ev[2]])
    elif k == "tick":
        d = w.earliest_deadline()
        w.tick(advance_to=(d + 1.0) if d is not None else None)
    elif k == "eof":
        w.eof(ev[1])
    elif k == "wait":
        w.send("c2", "qwait", jobids=[ev[1]])
    elif k == "wait2":
        w.send("c2", "qwait", jobids=[ev[1], ev[2]])
    elif k == "addanon":
        w.njobs += 1
        w.send("c", "qadd", channel=ev[1], priority=0, timeout=ev[2], payload={"anon": w.njobs})
    elif k == "wd":
        w.watchdog(advance=ev[1])
    elif k == "restart":
        try:
            w.restart()
        except poolmod.CaseTimeout:
            raise
        except Exception as e:
            import traceback
            tb = traceback.extract_tb(e.__traceback__)
            where = next((f for f in reversed(tb) if "/qs/" in f.filename), tb[-1])
            raise RestartFailed("%s@%s" % (type(e).__name__, where.name), "%s: %s" % (type(e).__name__, e))
    elif HOOKS["apply_event"]:
        HOOKS["apply_event"](w, ev)
    else:
        raise ValueError(ev)


FALSY_RESULTS = {"zero": 0, "emptystr": "", "emptylist": [], "emptydict": {}, "false": False}


def run_poll(w, events, choices):
    w.chooser.script = list(choices)
    n0 = len(w.chooser.taken)
    for ev in events:
        apply_event(w, ev)
    w.loop()
    taken = w.chooser.taken[n0:]
    if not hasattr(w, "history"):
        w.history = []
    w.history.append((tuple(events), tuple(t[0] for t in taken)))
    return taken


def execute(history):
    w = new_world()
    for events, choices in history:
        run_poll(w, events, choices)
    return w


# ----------------------------------------------------------------------------- observation
def blocked_calls(w):
    """conn -> (method, kwargs) for connections whose handler is blocked inside an RPC (from the trace)."""
    open_calls = {}
    for ev in w.trace:
        if ev[0] == "restart":
            open_calls.clear()
        elif ev[0] == "call":
            open_calls[ev[1]] = (ev[2], ev[3])
        elif ev[0] in ("return", "raise", "killed-in-call"):
            open_calls.pop(ev[1], None)
    return open_calls


def delivered(w):
    """worker -> set of jobids it has ever been handed (since the last restart its connection is gone anyway)"""
    out = {}
    for ev in w.trace:
        if ev[0] == "restart":
            out.clear()
        elif ev[0] == "return" and ev[2] == "qpull" and isinstance(ev[3], dict):
            out.setdefault(ev[1], []).append(ev[3]["jobid"])
    return out


def abstract(w):
    """Property-relevant, JSON-able description of a quiescent implementation state."""
    wq = w.wq
    t = w.clock.t
    blocked = blocked_calls(w)
    deliv = delivered(w)
    jobs = {}
    for jid, j in wq.id2job.items():
        jobs[jid] = [j.channel, j.priority, j.serial, bool(j.done), j.error, json.dumps(j.result, sort_keys=True),
                     None if j.done else round(j.timeout - t, 3), j.deadline is not None, bool(j.drop)]
    queues = {}
    for ch, q in wq.channel2q.items():
        if q:
            # (in the order the implementation holds them: a heap laid out wrongly has other futures than one laid out rightly,
            #  so the layout is part of the state - sorting here once merged a broken restored queue with a sound one)
            queues[ch] = [[j.priority, j.serial, j.jobid, bool(j.done), wq.id2job.get(j.jobid) is j] for j in q]
    tq = [[round(d - t, 3), j.jobid, wq.id2job.get(j.jobid) is j] for (d, j) in wq.timeoutq if not j.done]
    conns = {}
    for name, c in w.conns.items():
        g = c.greenlet
        b = blocked.get(name)
        run = [[jid, bool(j.done), wq.id2job.get(jid) is j] for jid, j in (c.handler.running_jobs.items() if c.handler else [])]
        conns[name] = ["dead" if g.dead else "alive", c.eof_sent,
                       [b[0], sorted(b[1].get("channels") or b[1].get("jobids") or [], key=repr)] if b else None,
                       run, sorted(set(deliv.get(name, [])), key=repr)]
    waiters = [[sorted(chans), bool(ev.ready()), w.owner_of(ev)] for (chans, ev) in wq._waiters]
    return {"jobs": jobs, "queues": queues, "tq": tq, "conns": conns, "waiters": waiters, "count": wq.count,
            "c2c": wq._channel2count, "njobs": w.njobs, "gen": w.generation, "cb": len(w.hub.pending())}


def _key_under(a, cm):
    """canonical form of an abstract state under channel map cm; workers are identified by their own
    descriptor (which includes their positions in the waiter list), so sorting the descriptors quotients by
    worker permutation without trying permutations"""
    jobs = tuple(sorted(((jid, cm.get(j[0], j[0]), j[1], j[2], j[3], j[4], j[5], j[6], j[7], j[8]) for jid, j in a["jobs"].items()), key=repr))
    queues = tuple(sorted(((cm.get(ch, ch), tuple(map(tuple, q))) for ch, q in a["queues"].items()), key=repr))
    tq = tuple(map(tuple, a["tq"]))
    wpos = {}
    waiters = []
    for i, (chans, ready, owner) in enumerate(a["waiters"]):
        wpos.setdefault(owner, []).append(i)
        waiters.append((tuple(sorted(cm.get(c, c) for c in chans)), ready, owner if owner not in WORKERS else "w"))
    wdesc = []
    others = []
    for name, c in a["conns"].items():
        blocked = None
        if c[2]:
            blocked = (c[2][0], tuple(sorted((cm.get(x, x) for x in c[2][1]), key=repr)))
        d = (c[0], c[1], blocked, tuple(map(tuple, c[3])), tuple(c[4]), tuple(wpos.get(name, ())))
        if name in WORKERS:
            wdesc.append(d)
        else:
            others.append((name,) + d)
    wdesc.sort(key=repr)
    c2c = tuple(sorted((cm.get(ch, ch), tuple(sorted(v.items()))) for ch, v in a["c2c"].items()))
    return (jobs, queues, tq, tuple(wdesc), tuple(others), tuple(waiters), a["count"], c2c, a["njobs"], a["gen"], a["cb"])


_CMAPS = ({}, {"a": "b", "b": "a"})


def state_key(a, use_symmetry=True):
    """Canonical key modulo worker permutation and channel swap (workers and channels are only ever
    compared for equality by the code, so relabelled states have isomorphic futures)."""
    r0 = repr(_key_under(a, _CMAPS[0]))
    if use_symmetry and HOOKS["channel_symmetry"]:
        r1 = repr(_key_under(a, _CMAPS[1]))
        if r1 < r0:
            r0 = r1
    return stable_hash(r0 + repr(a.get("extra")))


# ----------------------------------------------------------------------------- enabled events
def shadow_of(w, a):
    if HOOKS["shadow_of"]:
        return HOOKS["shadow_of"](w, a)
    return base_shadow_of(w, a)


def base_shadow_of(w, a):
    alive, idle = [], []
    for name in WORKERS:
        c = a["conns"][name]
        if c[0] == "alive" and not c[1]:
            alive.append(name)
            if c[2] is None:
                idle.append(name)
    undone = [jid for jid, j in a["jobs"].items() if not j[3]]
    return {"njobs": a["njobs"], "jobs": sorted(a["jobs"], key=repr), "undone": sorted(undone, key=repr), "alive": alive, "idle": idle,
            "deliv": {n: a["conns"][n][4] for n in WORKERS}, "c2idle": a["conns"]["c2"][2] is None and a["conns"]["c2"][0] == "alive",
            "killed": sorted((jid for jid, j in a["jobs"].items() if j[4] == "killed"), key=repr), "gen": a["gen"],
            "holders": {n: [r[0] for r in a["conns"][n][3]] for n in WORKERS}}


def enabled(sh, cfg):
    if HOOKS["enabled"]:
        return HOOKS["enabled"](sh, cfg)
    return base_enabled(sh, cfg)


def base_enabled(sh, cfg):
    evs = []
    ops = cfg.ops
    if "add" in ops and sh["njobs"] < cfg.maxjobs:
        for ch in cfg.channels:
            for pr in cfg.prios:
                for tmo in cfg.timeouts:
                    evs.append(("add", ch, pr, tmo))
    idle = [wk for wk in sh["idle"] if wk in cfg.workers]
    alive = [wk for wk in sh["alive"] if wk in cfg.workers]
    if "pull" in ops:
        for wk in idle:
            for ps in cfg.pullsets:
                evs.append(("pull", wk, ps))
    if "finish" in ops:
        for wk in idle:
            for jid in sh["deliv"].get(wk, []):
                for kind in cfg.finish_kinds:
                    evs.append(("finish", wk, jid, kind))
    if "kill" in ops:
        for jid in sh["jobs"]:
            evs.append(("kill", "c", jid))
            if cfg.kill_by_holder:
                for wk in idle:
                    if jid in sh["holders"].get(wk, []):
                        evs.append(("kill", wk, jid))
    if "tick" in ops and sh["undone"]:
        evs.append(("tick",))
    if "eof" in ops:
        for wk in alive:
            evs.append(("eof", wk))
    if "readd" in ops:
        for jid in sh["jobs"]:
            evs.append(("readd", jid))
    if "wait" in ops and sh["c2idle"]:
        for jid in sh["jobs"]:
            evs.append(("wait", jid))
    if "wait2" in ops and sh["c2idle"] and len(sh["jobs"]) >= 2:
        evs.append(("wait2", sh["jobs"][0], sh["jobs"][1]))
    if "addanon" in ops and sh["njobs"] < cfg.maxjobs:
        for tmo in cfg.timeouts:
            evs.append(("addanon", cfg.channels[0], tmo))
    if "wd" in ops and sh["jobs"]:
        evs.append(("wd", 20.0))
    return evs


def shadow_apply(sh, ev):
    if HOOKS["shadow_apply"]:
        return HOOKS["shadow_apply"](sh, ev)
    return base_shadow_apply(sh, ev)


def base_shadow_apply(sh, ev):
    sh = dict(sh)
    k = ev[0]
    if k == "add":
        sh["njobs"] += 1
        jid = jobname(sh["njobs"])
        sh["jobs"] = sh["jobs"] + [jid]
        sh["undone"] = sh["undone"] + [jid]
    elif k in ("pull", "finish"):
        sh["idle"] = [x for x in sh["idle"] if x != ev[1]]
    elif k == "kill":
        if ev[1] != "c":
            sh["idle"] = [x for x in sh["idle"] if x != ev[1]]
    elif k == "eof":
        sh["alive"] = [x for x in sh["alive"] if x != ev[1]]
        sh["idle"] = [x for x in sh["idle"] if x != ev[1]]
    elif k in ("wait", "wait2"):
        sh["c2idle"] = False
    elif k == "addanon":
        sh["njobs"] += 1
    return sh


def enumerate_polls(sh, cfg, budget):
    """all ordered event lists of length 1..K with len+1 <= budget (plus restart as a transition of its own)"""
    out = []
    maxlen = min(cfg.maxpoll, budget - 1)

    def rec(prefix, s):
        if len(prefix) >= maxlen:
            return
        for ev in enabled(s, cfg):
            p = prefix + (ev,)
            out.append(p)
            rec(p, shadow_apply(s, ev))

    if maxlen >= 1:
        rec((), sh)
    out.sort(key=len)
    if cfg.maxrestarts and sh["gen"] < cfg.maxrestarts and budget >= 1:
        out.append((("restart",),))
    return out


def poll_cost(events):
    if events == (("restart",),) or events == [["restart"]]:
        return 1
    return len(events) + 1


# ----------------------------------------------------------------------------- oracles
def run_model(w):
    m = QueueModel()
    tr = w.trace
    for i, ev in enumerate(tr):
        n0 = len(m.problems)
        m.step(ev)
        if ev[0] == "call":
            nxt = tr[i + 1] if i + 1 < len(tr) else None
            immediate = bool(nxt and nxt[0] in ("return", "raise") and nxt[1] == ev[1])
            m.after_call_check(ev[1], ev[2], immediate)
        for k in range(n0, len(m.problems)):
            m.problems[k] = m.problems[k] + (i,)
    return m


def conservation(w, a, m):
    """C16 white-box invariant on a quiescent state: every accepted, unfinished job is in exactly one place."""
    out = []
    wq = w.wq
    accepted = [jid for jid, j in m.jobs.items() if not j["done"] and jid not in m.dropped]
    for jid in accepted:
        inq = 0
        for ch, q in wq.channel2q.items():
            for j in q:
                if j.jobid == jid and not j.done:
                    inq += 1
        held = []
        for name, c in w.conns.items():
            if c.handler is None or c.greenlet.dead or c.shutdown_done:
                continue
            j = c.handler.running_jobs.get(jid)
            if j is not None and not j.done:
                held.append(name)
        inflight = 0
        for (chans, ev) in wq._waiters:
            if ev.ready() and getattr(ev.value, "jobid", None) == jid:
                inflight += 1
        total = inq + len(held) + inflight
        if total == 0:
            out.append(("job-lost", "accepted unfinished job %r is neither queued nor held by a live connection" % jid))
        elif total > 1:
            out.append(("job-duplicated", "job %r is in %d places: queued x%d, held by %r, in flight x%d" % (
                jid, total, inq, held, inflight)))
        jj = wq.id2job.get(jid)
        if jj is None:
            out.append(("job-forgotten", "accepted unfinished job %r is no longer known under its id" % jid))
        elif jj.done:
            out.append(("job-id-shadowed", "id %r resolves to a finished job object while an unfinished one exists" % jid))
    return out


def compare_state(w, a, m):
    """C17: abstract implementation state vs reference model at a quiescent state."""
    out = []
    wq = w.wq
    for jid, mj in m.jobs.items():
        if jid in m.dropped:
            continue
        ij = wq.id2job.get(jid)
        if ij is None:
            out.append(("status-diverge", "job %r unknown to the implementation" % jid))
            continue
        got = (bool(ij.done), ij.error, ij.result)
        want = (mj["done"], mj["error"], mj["result"])
        if got != want:
            out.append(("status-diverge", "job %r is (done,error,result)=%r, reference says %r" % (jid, got, want)))
    extra = set(wq.id2job) - set(m.jobs)
    if extra:
        out.append(("extra-job", "implementation knows jobs %r that were never added" % sorted(extra, key=str)))
    for conn, jids in m.waitingfor.items():
        if all(o["done"] for (j, o) in jids):
            out.append(("wait-not-released", "%s still blocked in qwait(%r) although all are finished" % (conn, jids)))
    # observations every state: stats and info through the real RPC methods (read-only)
    h = w.conns["c"].handler
    if h is not None:
        n0 = len(m.problems)
        m.check_stats(json.loads(json.dumps(h.rpc_getstats())))
        out.extend((p[0], p[1]) for p in m.problems[n0:])
        del m.problems[n0:]
        for jid in m.jobs:
            n0 = len(m.problems)
            m.expect["c"] = ("info", jid)
            m.on_return("c", "qinfo", json.loads(json.dumps(h.rpc_qinfo(jid))))
            out.extend((p[0], p[1]) for p in m.problems[n0:])
            del m.problems[n0:]
    return out


def stalled(w, m):
    """informational: a live worker blocked in qpull while a job it asked for is queued"""
    n = 0
    for conn, chans in m.pulling.items():
        if m.candidates(chans):
            n += 1
    return n


def judge(w, cfg, want=("C16", "C17")):
    if HOOKS["judge"]:
        return HOOKS["judge"](w, cfg)
    a = abstract(w)
    m = run_model(w)
    viol = []
    for e in w.hub.errors:
        viol.append(("C16", "server-greenlet-error:" + e[1], "unhandled exception in a server greenlet: %r" % (e,), None))
    if a["cb"]:
        viol.append(("H", "not-quiescent", "callbacks pending after drain", None))
    for sig, msg in conservation(w, a, m):
        viol.append(("C16", sig, msg, None))
    for p in m.problems:
        sig, msg, idx = p[0], p[1], (p[2] if len(p) > 2 else None)
        fam = "C16" if sig in ("duplicate-delivery", "pull-not-queued", "pull-unknown-job") else "C17"
        if sig.startswith("stats-"):
            continue
        viol.append((fam, sig, msg, idx))
    for sig, msg in compare_state(w, a, m):
        viol.append(("C17", sig, msg, None))
    return a, m, viol


def drain_probe(history):
    """C16 black box: from the state, drop every worker, let the loop run, and have one fresh connection pull
    everything: it must receive exactly the accepted unfinished jobs, each once, in (priority, serial) order."""
    if HOOKS["probe"]:
        return HOOKS["probe"](history)
    w = execute(history)
    m = run_model(w)
    expect = sorted((jid for jid, j in m.jobs.items() if not j["done"] and jid not in m.dropped), key=m.order)
    for name in WORKERS + ("c2",):
        c = w.conns[name]
        if not c.greenlet.dead and not c.eof_sent:
            w.eof(name)
    w.loop()
    got = []
    p = w.conns["p"]
    for _ in range(len(m.jobs) + 2):
        n0 = len(p.responses)
        w.send("p", "qpull", channels=[])
        w.loop()
        if len(p.responses) == n0:
            break
        r = p.responses[-1]
        got.append(r.get("result", {}).get("jobid") if isinstance(r.get("result"), dict) else ("error", r.get("error")))
    out = []
    w.close()
    if sorted(map(str, got)) != sorted(map(str, expect)):
        missing = [j for j in expect if j not in got]
        extra = [j for j in got if j not in expect or got.count(j) > 1]
        if missing:
            out.append(("C16", "drain-missing", "after all workers dropped, a fresh worker can pull %r but %r are accepted and unfinished (missing %r)" % (got, expect, missing)))
        if extra:
            out.append(("C16", "drain-extra", "fresh worker pulled %r, expected exactly %r (surplus/duplicate %r)" % (got, expect, extra)))
    elif got != expect:
        out.append(("C17", "drain-order", "fresh worker pulled %r, (priority, serial) order is %r" % (got, expect)))
    return out, tuple(got)


# ----------------------------------------------------------------------------- worker side
class Explorer:
    def __init__(self, prop_id, cfg, families, post_restart_only=False):
        self.prop_id = prop_id
        self.cfg = cfg
        self.families = families
        self.post_restart_only = post_restart_only

    def select(self, viol, w):
        out = []
        ridx = None
        if self.post_restart_only:
            for i, ev in enumerate(w.trace):
                if ev[0] == "restart":
                    ridx = i
                    break
            if ridx is None:
                return [v for v in viol if v[0] == "H"]
        for fam, sig, msg, idx in viol:
            if ridx is not None and idx is not None and idx < ridx:
                continue
            if fam == "H" or fam in self.families:
                out.append((fam, sig, msg, idx))
        return out

    def handle(self, payload, ctx):
        kind = payload["kind"]
        if kind == "expand":
            return self.expand(payload, ctx)
        if kind == "probe":
            return self.probe(payload, ctx)
        raise ValueError(kind)

    def expand(self, payload, ctx):
        hist = [(tuple(map(tuple_deep, ev)), tuple(ch)) for ev, ch in payload["hist"]]
        out = []
        skip = set(payload.get("skip", ()))
        counters = Counter()
        for pi, poll in enumerate(payload["polls"]):
            if pi in skip:
                continue
            poll = tuple(tuple_deep(e) for e in poll)
            ctx.begin(pi)
            try:
                stack = [()]
                while stack:
                    choices = stack.pop()
                    if payload.get("key") is not None and pi == 0 and choices == ():
                        w = execute(hist)  # (a world of its own: judging may talk to the server)
                        k0 = state_key(judge(w, self.cfg)[0] if HOOKS["judge"] else abstract(w))
                        w.close()
                        if k0 != payload["key"]:
                            return {"fatal": "replay of prefix diverged: %r" % (hist,)}
                    w = execute(hist)
                    taken = run_poll(w, poll, choices)
                    for i in range(len(choices), len(taken)):
                        for alt in range(1, taken[i][1]):
                            stack.append(tuple(t[0] for t in taken[:i]) + (alt,))
                    used = tuple(t[0] for t in taken)
                    a, m, viol = judge(w, self.cfg)
                    viol = self.select(viol, w)
                    key = state_key(a)
                    counters["transitions"] += 1
                    if any(t[1] > 1 for t in taken):
                        counters["choice_points"] += 1
                    if stalled(w, m):
                        counters["stalled_states"] += 1
                    counters["killed_in_call"] += sum(1 for e in w.trace if e[0] == "killed-in-call")
                    out.append({"poll": poll, "choices": used, "key": key, "shadow": shadow_of(w, a),
                                "viol": [(f, s, msg) for (f, s, msg, idx) in viol]})
                    w.close()
            except poolmod.CaseTimeout:
                out.append({"poll": poll, "choices": (), "key": None, "shadow": None,
                            "viol": [("C16", "hang", "event loop did not reach quiescence within the watchdog")]})
            except RestartFailed as e:
                counters["transitions"] += 1
                out.append({"poll": poll, "choices": (), "key": None, "shadow": None,
                            "viol": [("C16", "restart-raises:" + e.args[0], "stopping and restarting the server from this state raised " + e.args[1])]})
            finally:
                ctx.end()
        return {"trans": out, "counters": counters}

    def probe(self, payload, ctx):
        res = []
        for i, hist in enumerate(payload["hists"]):
            hist = [(tuple(map(tuple_deep, ev)), tuple(ch)) for ev, ch in hist]
            ctx.begin(i)
            try:
                viol, got = drain_probe(hist)
            except poolmod.CaseTimeout:
                viol, got = [("C16", "hang", "drain probe did not terminate")], ()
            finally:
                ctx.end()
            w = None
            if self.post_restart_only and not any(ev == ("restart",) for evs, _ in hist for ev in evs):
                viol = []
            res.append({"viol": [v for v in viol if v[0] in self.families], "got": got})
        return {"probes": res}


def tuple_deep(x):
    if isinstance(x, (list, tuple)):
        return tuple(tuple_deep(y) for y in x)
    return x


# ----------------------------------------------------------------------------- parent side: the search
def search(prop, cfg, tier, seed, families, post_restart_only=False, time_cap=None, rule="", assumptions=(), gate=True,
           extra_cov=None, pre_violations=None, verdict=None, defer=False, label=""):
    """defer=True: do not print/write anything, return (cov, verdict) so that several phases share one verdict"""
    t0 = time.time()
    global IDNAMES
    IDNAMES = getattr(cfg, "idnames", None)  # (before the workers are forked)
    ex = Explorer(prop, cfg, families, post_restart_only)
    p = poolmod.WorkerPool(ex.handle, soft_timeout=30.0, hard_timeout=90.0, mem_gb=4)
    verdict = verdict or report.Verdict(prop, gate=gate)
    for sig, rec in (pre_violations or []):
        verdict.add(sig, rec, count=1)
    w0 = execute([])
    a0 = judge(w0, cfg)[0] if HOOKS["judge"] else abstract(w0)
    k0 = state_key(a0)
    seen = {k0: 0}
    buckets = {0: [{"hist": [], "shadow": shadow_of(w0, a0), "key": k0}]}
    counters = Counter()
    ntrans = 0
    nstates = 1
    completed = -1
    capped = False
    drain_outcomes = set()
    samples = []
    sig_counts = Counter()
    per_level = {}
    try:
        for cost in range(0, cfg.bound + 1):
            nodes = buckets.pop(cost, [])
            if not nodes:
                completed = cost
                continue
            if time_cap and time.time() - t0 > time_cap:
                capped = True
                break
            tasks = []
            r = seed % max(1, len(nodes))
            nodes = nodes[r:] + nodes[:r]
            for node in nodes:
                polls = enumerate_polls(node["shadow"], cfg, cfg.bound - cost)
                for i in range(0, len(polls), 150):
                    tasks.append({"kind": "expand", "hist": node["hist"], "polls": polls[i:i + 150], "key": node["key"],
                                  "cost": cost})
            newnodes = []
            results = p.map(tasks, deadline=(t0 + time_cap) if time_cap else None)
            if p.deadline_hit:
                capped = True
            for task, res in zip(tasks, results):
                if res is None:
                    continue
                if isinstance(res, tuple) and res and res[0] == "fatal":
                    verdict.errors.append(str(res[1])[-1500:])
                    continue
                if "fatal" in res:
                    verdict.errors.append(res["fatal"])
                    continue
                counters.update(res["counters"])
                for tr in res["trans"]:
                    ntrans += 1
                    hist2 = task["hist"] + [(tr["poll"], tr["choices"])]
                    for fam, sig, msg in tr["viol"]:
                        sig_counts[sig] += 1
                        if sig_counts[sig] <= 3 or len(hist2) < 3:
                            verdict.add(sig, {"case": mkcase(hist2), "msg": msg, "idx": cost * 1000000 + len(json.dumps(hist2))}, count=1)
                        else:
                            verdict.add(sig, None, count=1)
                    if tr["key"] is None:
                        continue
                    c2 = cost + poll_cost(tr["poll"])
                    if tr["key"] not in seen:
                        seen[tr["key"]] = c2
                        nstates += 1
                        node2 = {"hist": hist2, "shadow": tr["shadow"], "key": tr["key"]}
                        newnodes.append(node2)
                        if c2 < cfg.bound:
                            buckets.setdefault(c2, []).append(node2)
                        if len(samples) < 6 and len(hist2) >= 2 and nstates % 97 == 0:
                            samples.append({"history": hist2, "cost": c2})
            for (ti, cidx, kind) in p.events:
                verdict.add("hang" if kind == "hang" else "worker-crash",
                            {"case": mkcase(tasks[ti]["hist"] + [(tasks[ti]["polls"][cidx], ())]) if tasks[ti]["kind"] == "expand" else {},
                             "msg": "worker %s while executing a transition" % kind, "idx": 0})
            del p.events[:]
            # black-box drain probe on every newly discovered distinct state
            if cfg.probe and newnodes:
                ptasks = [{"kind": "probe", "hists": [n["hist"] for n in newnodes[i:i + 40]]} for i in range(0, len(newnodes), 40)]
                presults = p.map(ptasks, deadline=(t0 + time_cap + 120) if time_cap else None)
                if p.deadline_hit:
                    capped = True
                for task, res in zip(ptasks, presults):
                    if res is None:
                        continue
                    if isinstance(res, tuple) and res and res[0] == "fatal":
                        verdict.errors.append(str(res[1])[-1500:])
                        continue
                    for hist, pr in zip(task["hists"], res["probes"]):
                        counters["probes"] += 1
                        drain_outcomes.add(pr["got"])
                        for fam, sig, msg in pr["viol"]:
                            sig_counts[sig] += 1
                            verdict.add(sig, {"case": mkcase(hist, probe=True), "msg": msg,
                                              "idx": len(json.dumps(hist))}, count=1)
            per_level[cost] = {"expanded": len(nodes), "new_states": len(newnodes), "transitions_total": ntrans,
                               "elapsed_s": round(time.time() - t0, 1)}
            if capped:
                break
            completed = cost
    finally:
        p.close()
    if not samples:
        samples = [{"history": [], "cost": 0}]
    rc = None if defer else verdict.finish()
    cov = {
        "states": nstates, "transitions": ntrans,
        "traces_validated_against_impl": ntrans + counters["probes"],
        "evaluations": ntrans + counters["probes"], "distinct_nontrivial": nstates,
        "rule": rule, "samples": samples,
        "exhaustive": (not capped) and not verdict.errors,
        "bound_cost": cfg.bound, "completed_cost_level": completed, "time_cap_hit": capped,
        "max_events_per_loop_iteration": cfg.maxpoll, "alphabet_ops": sorted(cfg.ops), "max_jobs": cfg.maxjobs,
        "workers": len(cfg.workers), "channels": len(cfg.channels), "per_level": per_level,
        "distinct_drain_outcomes": len(drain_outcomes), "counters": dict(counters),
        "violation_signatures": dict(sig_counts), "known_findings_seen": getattr(verdict, "n_known", 0),
        "symmetry_reduction": "worker permutations x channel swap (12 relabelings)",
    }
    if extra_cov:
        cov.update(extra_cov)
    cov["wall_s"] = round(time.time() - t0, 1)
    if defer:
        cov["vacuous"] = bool(nstates < 50 or counters["probes"] and len(drain_outcomes) < 3)
        print("%s %s [%s]: states=%d transitions=%d probes=%d completed_cost=%d/%d capped=%s wall=%.1fs" % (
            prop, tier, label, nstates, ntrans, counters["probes"], completed, cfg.bound, capped, time.time() - t0))
        return cov, verdict
    report.write_evidence(prop, tier, seed, "model_checking", cov, time.time() - t0, getattr(verdict, "n_new", 0), assumptions)
    print("%s %s: states=%d transitions=%d probes=%d completed_cost=%d/%d capped=%s drain_outcomes=%d new_violations=%d known=%d wall=%.1fs" % (
        prop, tier, nstates, ntrans, counters["probes"], completed, cfg.bound, capped, len(drain_outcomes),
        getattr(verdict, "n_new", 0), getattr(verdict, "n_known", 0), time.time() - t0))
    # vacuity guards
    if nstates < 50 or counters["probes"] and len(drain_outcomes) < 3:
        print("HARNESS-ERROR vacuous exploration: states=%d drain outcomes=%d" % (nstates, len(drain_outcomes)))
        return 2
    return rc


def search_phases(prop, phases, tier, seed, families, post_restart_only=False, rule="", assumptions=(), gate=True, extra_cov=None,
                  pre_violations=None):
    """phases: [(label, cfg, time_cap)] explored one after the other with one verdict and one evidence file"""
    t0 = time.time()
    verdict = None
    covs = []
    for label, cfg, cap in phases:
        cov, verdict = search(prop, cfg, tier, seed, families, post_restart_only=post_restart_only, time_cap=cap, rule=rule,
                              assumptions=assumptions, gate=gate, verdict=verdict, defer=True, label=label,
                              extra_cov=extra_cov if not covs else None, pre_violations=pre_violations if not covs else None)
        cov["phase"] = label
        covs.append(cov)
    rc = verdict.finish()
    main = dict(covs[0])
    main["states"] = sum(c["states"] for c in covs)
    main["transitions"] = sum(c["transitions"] for c in covs)
    main["traces_validated_against_impl"] = sum(c["traces_validated_against_impl"] for c in covs)
    main["evaluations"] = sum(c["evaluations"] for c in covs)
    main["distinct_nontrivial"] = sum(c["distinct_nontrivial"] for c in covs)
    main["exhaustive"] = all(c["exhaustive"] for c in covs)
    main["samples"] = [x for c in covs for x in c["samples"][:3]]
    main["phases"] = [{k: c[k] for k in ("phase", "states", "transitions", "bound_cost", "completed_cost_level", "time_cap_hit",
                                          "max_events_per_loop_iteration", "alphabet_ops", "max_jobs", "wall_s", "distinct_drain_outcomes")} for c in covs]
    main["known_findings_seen"] = getattr(verdict, "n_known", 0)
    report.write_evidence(prop, tier, seed, "model_checking", main, time.time() - t0, getattr(verdict, "n_new", 0), assumptions)
    print("%s %s: phases=%d states=%d transitions=%d exhaustive=%s new_violations=%d known=%d wall=%.1fs" % (
        prop, tier, len(covs), main["states"], main["transitions"], main["exhaustive"], getattr(verdict, "n_new", 0),
        getattr(verdict, "n_known", 0), time.time() - t0))
    if covs[0].get("vacuous"):
        print("HARNESS-ERROR vacuous exploration in the main phase")
        return 2
    return rc


def mkcase(hist, **kw):
    c = {"history": hist}
    if IDNAMES:
        c["idnames"] = list(IDNAMES)
    c.update(kw)
    return c


def replay_history(record, families, cfg, post_restart_only=False):
    global IDNAMES
    case = record["case"]
    IDNAMES = tuple(case["idnames"]) if case.get("idnames") else None
    hist = [(tuple(map(tuple_deep, ev)), tuple(ch)) for ev, ch in case["history"]]
    try:
        if not case.get("probe"):
            execute(hist).close()
    except RestartFailed as e:
        sig = "restart-raises:" + e.args[0]
        return {"violated": True, "sig": sig, "msg": "stopping and restarting the server from this state raised " + e.args[1], "all_sigs": [sig]}
    if case.get("probe"):
        viol, got = drain_probe(hist)
        viol = [(f, s, m) for (f, s, m) in viol]
    else:
        w = execute(hist)
        a, m, viol4 = judge(w, cfg)
        ex = Explorer("", cfg, families, post_restart_only)
        viol = [(f, s, msg) for (f, s, msg, idx) in ex.select(viol4, w)]
    viol = [v for v in viol if v[0] in families or v[0] == "H"]
    want = record.get("sig")
    match = [v for v in viol if v[1] == want] or viol
    return {"violated": bool(viol), "sig": match[0][1] if match else None, "msg": match[0][2] if match else None,
            "all_sigs": sorted(set(v[1] for v in viol))}
