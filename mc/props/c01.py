"""C01 – parsing is total: any wikitext yields an article tree, never an exception, never a hang, no blow-up.

Families (all fully enumerated, shortest first):
  flat       every string in SIGMA^<=2 (with and without a wiki database) and SIGMA_CORE^3   [thorough: SIGMA^3 capped to the
             non-tag sub-alphabet, SIGMA_CORE^4]
  ctx        every embedding context x SIGMA^1                                                 [thorough: x SIGMA_CORE^2]
  templ      l1 {{T}} l2 / {{T|l1}} for every template universe body in TU, l1,l2 in SIGMA_CORE
  nest       14 nestable constructs x depth 1..40 x {closed, unclosed, crossed with every other construct}
  lang       SIGMA^1 and CTX x SIGMA_CORE^1 with localized namespace words, for all 12 bundled sites
  pump       p^n for every lexeme p (thorough: every pair over SIGMA_CORE) in 4 frames, n = 32/128/512: growth exponent
"""
import time

from mc.core import pool as poolmod
from mc.core.runner import InputProp, exc_signature
from mc.core.space import Seqs, Product, Concat, Items
from mc.gen import wikitext as W

LANGS = ["en", "de", "es", "fr", "it", "ja", "nl", "no", "pl", "pt", "simple", "sv"]
FRAMES = [("plain", "%s"), ("in-table", "{|\n| %s\n|}"), ("in-link", "[[A|%s]]"), ("in-bold", "'''%s")]
DEPTHS_QUICK = [1, 2, 3, 5, 10, 20, 40]


def shape(node, depth=0, out=None, limit=400):
    """compact structural signature of a parse tree (outcome class for the vacuity guard)"""
    if out is None:
        out = []
    if len(out) > limit:
        return out
    out.append(type(node).__name__[:4])
    ch = getattr(node, "children", None)
    if ch:
        out.append("(")
        for c in ch:
            shape(c, depth + 1, out, limit)
        out.append(")")
    return out


class LangDB:
    """wikidb with the site info of one language and a dict of template pages"""

    def __init__(self, lang, pages):
        from mwlib.network.siteinfo import get_siteinfo
        from mwlib.core import nshandling
        self.siteinfo = get_siteinfo(lang)
        self.nshandler = nshandling.NsHandler(self.siteinfo)
        self.pages = {k.lower(): v for k, v in pages.items()}

    def normalize_and_get_page(self, title, defaultns=0):
        from mwlib.parser.templ.misc import Page
        t = title.split(":", 1)[-1].lower().replace(" ", "_")
        if t in self.pages:
            return Page(self.pages[t])
        return None

    def get_siteinfo(self):
        return self.siteinfo

    def normalize_and_get_image_path(self, name):
        return None

    def get_url(self, name, revision=None, defaultns=0):
        import urllib.parse
        return "http://wiki.example/w/index.php?title=" + urllib.parse.quote(name.replace(" ", "_").encode("utf-8"), safe=":/@")


class C01(InputProp):
    id = "C01"
    rule = ("families flat/ctx/templ/nest/lang/pump as described in mc/props/c01.py, each enumerated completely; every case is one call of "
            "uparser.parse_string on the real code (extensions rebuilt from the working tree); distinct = distinct parse-tree shapes")
    assumptions = ("alphabets of DESIGN §2 (mc/gen/wikitext.py); inputs longer than the bounds are outside",
                   "polynomial growth is measured on pumped families (exponent between n=128 and n=512), not proved")
    chunk = 250
    soft_timeout = 20.0
    hard_timeout = 150.0  # (per case; a pump case is up to eight parses of up to soft_timeout each)
    budget_s = {"quick": 1800.0, "thorough": 7200.0}

    def prepare(self, tier):
        from mwlib.parser.refine import uparser
        from mwlib.parser.templ.misc import DictDB
        from mwlib.utils.uniq import Uniquifier
        from mwlib.network.siteinfo import get_siteinfo
        Uniquifier.random_string = "0123456789abcdef"  # pinned (os.urandom otherwise)
        self.parse = uparser.parse_string
        self.DictDB = DictDB
        self.dbs = {}
        core = W.SIGMA_CORE
        fams = []
        fams.append(Seqs(W.SIGMA, 2, name="flat"))
        fams.append(Seqs(W.SIGMA, 2, minlen=1, name="flat-nodb"))
        fams.append(Seqs(core, 3, minlen=3, name="flat-core"))
        fams.append(Product([c[0] for c in W.CTX], W.SIGMA, name="ctx"))
        fams.append(Product([h[0] for h in W.ATTR_HOSTS], W.ATTR_NAMES, W.ATTR_VALUES, name="tagattr"))
        if tier == "quick":
            fams.append(Product(W.TU_BODIES, core[:24], core[:24], ["call", "arg"], name="templ"))
            fams.append(Product([n[0] for n in W.NESTABLE], DEPTHS_QUICK, ["closed", "open"] + [n[0] for n in W.NESTABLE], name="nest"))
            fams.append(Product(LANGS, W.SIGMA, name="lang-flat"))
            fams.append(Product(LANGS, [c[0] for c in W.CTX], core[:20], name="lang-ctx"))
            fams.append(Product(W.SIGMA, [f[0] for f in FRAMES[:2]], name="pump"))
            fams.append(Product(W.SIGMA, ["a"], [f[0] for f in FRAMES[:1]], name="pump2"))  # lexeme + word: separated repetitions
        else:
            nontag = [x for x in W.SIGMA if not (x.startswith("<") and x[1:2].isalpha() or x.startswith("</"))] + \
                     ["<b>", "</b>", "<div>", "</div>", "<ref>", "</ref>", "<table>", "<td>", "<li>", "<nowiki>", "<math>", "<gallery>"]
            fams.append(Seqs(nontag, 3, minlen=3, name="flat3"))
            fams.append(Seqs(core, 4, minlen=4, name="flat-core4"))
            fams.append(Product([c[0] for c in W.CTX], core, core, name="ctx2"))
            fams.append(Product(W.TU_BODIES, core, core, ["call", "arg"], name="templ"))
            fams.append(Product([n[0] for n in W.NESTABLE], list(range(1, 41)), ["closed", "open"] + [n[0] for n in W.NESTABLE], name="nest"))
            fams.append(Product(LANGS, W.SIGMA, name="lang-flat"))
            fams.append(Product(LANGS, [c[0] for c in W.CTX], W.SIGMA, name="lang-ctx"))
            fams.append(Product(W.SIGMA, [f[0] for f in FRAMES], name="pump"))
            fams.append(Product(W.SIGMA, ["a", " ", "\n"], [f[0] for f in FRAMES[:2]], name="pump2"))
            fams.append(Product(core, core, [f[0] for f in FRAMES[:2]], name="pump2"))
        # every namespace name and alias that ANY bundled site knows, as a link prefix on EVERY site, with and without a database
        names = set()
        for l in LANGS:
            si = get_siteinfo(l)
            for ns in si["namespaces"].values():
                names.update(x for x in (ns["*"], ns.get("canonical")) if x)
            names.update(al["*"] for al in si.get("namespacealiases", []))
        fams.append(Product(LANGS, sorted(names), ["db", "nodb"], name="lang-prefix"))
        self.space = Concat(*fams)
        # warm-up: one parse with templates, a reference and a table, so that every lazily imported module is loaded before the
        # first judged case (where the interpreter's recursion limit is hit depends on it: a replay in a fresh process must
        # start from the same state as the workers)
        try:
            self.parse(title="Warm up", raw="{{T|a}} <ref>x</ref> <poem>p</poem>\n{|\n| c\n|}\n<pages index=a from=1 to=1/>", wikidb=LangDB("en", W.template_universe("{{{1}}}")), lang="en")
            self.parse(title="Warm up", raw="a", lang="en")
            # ... and the process has served every bundled site before (state shared between the handlers of different sites
            # is then the same in a worker and in a fresh replay process)
            for l in LANGS:
                self.parse(title="Warm up", raw="[[Talk:x]] {{T|a}}", wikidb=LangDB(l, W.template_universe("{{{1}}}")), lang=l)
                self.parse(title="Warm up", raw="[[Talk:x]]", lang=l)
        except Exception:
            pass
        self.ctx = dict(W.CTX)
        self.nest = {n[0]: n for n in W.NESTABLE}
        self.frames = dict(FRAMES)
        self.si = {l: get_siteinfo(l) for l in LANGS}

    def db(self, lang="de", body=None):
        key = (lang, body)
        if key not in self.dbs:
            if len(self.dbs) > 200:
                self.dbs.clear()
            self.dbs[key] = LangDB(lang, W.template_universe(body if body is not None else "{{{1}}}"))
        return self.dbs[key]

    # ------------------------------------------------------------------ building the input of a case
    def build(self, case):
        fam, c = case
        lang, db = "en", self.db("en")
        if fam in ("flat", "flat-core", "flat3", "flat-core4"):
            text = "".join(c)
        elif fam == "tagattr":
            text = dict(W.ATTR_HOSTS)[c[0]] % ("%s=%s" % (c[1], c[2]))
        elif fam == "flat-nodb":
            text, db = "".join(c), None
        elif fam == "ctx":
            text = self.ctx[c[0]] % c[1]
        elif fam == "ctx2":
            text = self.ctx[c[0]] % (c[1] + c[2])
        elif fam == "templ":
            body, l1, l2, how = c
            db = self.db("en", body)
            text = (l1 + "{{T}}" + l2) if how == "call" else ("{{T|" + l1 + "}}" + l2)
        elif fam == "nest":
            name, depth, how = c
            _, o, cl = self.nest[name]
            if how == "closed":
                text = o * depth + "x" + cl * depth
            elif how == "open":
                text = o * depth + "x"
            else:
                _, o2, c2 = self.nest[how]
                text = (o + o2) * depth + "x" + (cl + c2) * depth  # closed in the wrong order
        elif fam == "lang-flat":
            lang = c[0]
            db = self.db(lang)
            text = W.localize([c[1]], self.si[lang])[0]
        elif fam == "lang-ctx":
            lang = c[0]
            db = self.db(lang)
            text = self.ctx[c[1]] % W.localize([c[2]], self.si[lang])[0]
        elif fam == "lang-prefix":
            lang = c[0]
            db = self.db(lang) if c[2] == "db" else None
            text = "See [[%s:Sport]] and [[%s:x y|its label]].\n" % (c[1], c[1].lower())
        else:
            raise ValueError(fam)
        return text, db, lang

    def at_depth(self, n, text, db, lang):
        if n:
            return self.at_depth(n - 1, text, db, lang)
        return self.parse_once(text, db, lang)

    def parse_once(self, text, db, lang):
        return self.parse(title="Test page", raw=text, wikidb=db, lang=lang)

    def run_case(self, case):
        fam = case[0]
        if fam in ("pump", "pump2"):
            return self.run_pump(case)
        text, db, lang = self.build(case)
        try:
            art = self.parse_once(text, db, lang)
            if fam == "templ" and "<" in case[1][0] and ("{{" in case[1][0] or "<pages" in case[1][0]):
                # whether runaway recursion behind a template escapes as RecursionError or is swallowed on the way depends on how
                # deep the caller's stack already is: the same parse from three more caller depths (a caller is at ANY depth)
                for extra in (11, 23, 37):
                    self.at_depth(extra, text, db, lang)
        except Exception as e:
            # (where the recursion limit is hit depends on the caller's stack depth: the frame is no part of the signature)
            sig = "RecursionError@anywhere" if isinstance(e, RecursionError) else exc_signature(e)
            return {"key": "exc", "viol": [{"sig": sig, "msg": "parse_string(%r) [%s, %s] raised %s: %s" % (
                text[:200], lang, "db" if db else "no db", type(e).__name__, str(e)[:200])}]}
        if type(art).__name__ != "Article":
            return {"key": "nonarticle", "viol": [{"sig": "not-an-article", "msg": "parse_string(%r) returned %r" % (text[:200], type(art))}]}
        sh = "".join(shape(art))
        return {"key": sh, "steps": sh.count("(") + 1}

    def run_pump(self, case):
        fam, c = case
        if fam == "pump":
            p, frame = c
        else:
            p, frame = c[0] + c[1], c[2]
        db = self.db("en")
        times = {}
        texts = {}
        lo, hi = 128, 512  # (the two lengths whose times end up in times[128] and times[512])
        for n in (32, 128, 512):
            if n == 512 and times.get(128, 0) > 1.0:
                # a lexeme that is expensive by itself (a tag that transcludes pages, a big image map): the growth exponent is
                # measured between 32 and 128 repetitions, where it is as visible and four times cheaper
                times[512], times[128] = times[128], times[32]
                lo, hi = 32, 128
                break
            text = texts[n] = self.frames[frame] % (p * n)
            best = None
            for rep in range(2 if n == 512 else 1):
                poolmod.arm(self.soft_timeout)  # (the watchdog is per call of parse_string; a pump case makes three to eight)
                t0 = time.process_time()
                try:
                    self.parse_once(text, db, "en")
                except RecursionError as e:
                    if n >= 128:
                        # a lexeme whose repetition recurses is a nesting opener: depth n > 40 is outside the property
                        return {"key": ("pump", "deep-nesting"), "steps": 1, "counters": {"pump_excluded_deep_nesting": 1}}
                    return {"key": "exc", "viol": [{"sig": exc_signature(e), "msg": "parse_string(%r x %d in frame %s) raised RecursionError" % (p, n, frame)}]}
                except Exception as e:
                    return {"key": "exc", "viol": [{"sig": exc_signature(e), "msg": "parse_string(%r x %d in frame %s) raised %s: %s" % (
                        p, n, frame, type(e).__name__, str(e)[:200])}]}
                dt = time.process_time() - t0
                best = dt if best is None else min(best, dt)
                if dt < 1.0:
                    break
            times[n] = best
        viol = []
        import math
        expo = math.log(max(times[512], 1e-6) / max(times[128], 1e-6)) / math.log(4.0)
        if times[512] > 1.0 and expo > 3.3:
            # An exponent is a quotient of two CPU times, and a CPU time is not a property of the code alone: on a busy or freshly
            # restored machine one measurement was seen 2.4 times too large, and '<pre>' pumped (exponent 2.8 on the idle sandbox)
            # is only a factor 2 in t(512) away from 3.3.  What is judged is therefore the SMALLEST exponent of up to three
            # rounds, each round measuring the short and the long text one right after the other.
            rounds = 2 if times[512] < 2.5 else 1 if times[512] < 5.0 else 0
            for _ in range(rounds):
                try:
                    a = min(self.cpu_of(texts[lo], db) for _ in range(2))
                    b = self.cpu_of(texts[hi], db)
                except Exception:
                    break
                if b / max(a, 1e-6) < times[512] / max(times[128], 1e-6):
                    times[512], times[128] = b, a
                expo = math.log(max(times[512], 1e-6) / max(times[128], 1e-6)) / math.log(4.0)
                if expo <= 3.3:
                    break
        if times[512] > 1.0 and expo > 3.3:
            viol.append({"sig": "superpolynomial-growth", "msg": "%r pumped in frame %s: t(128)=%.3fs t(512)=%.3fs exponent %.2f" % (
                p, frame, times[128], times[512], expo)})
        return {"key": ("pump", round(expo) if times[512] > 0.05 else 0), "steps": 3, "viol": viol,
                "counters": {"pump_over_1s": 1 if times[512] > 1.0 else 0, "pump_exponent_ge2": 1 if (times[512] > 0.2 and expo >= 1.8) else 0}}

    def cpu_of(self, text, db):
        poolmod.arm(self.soft_timeout)
        t0 = time.process_time()
        self.parse_once(text, db, "en")
        return time.process_time() - t0

    def timeout_violation(self, case):
        desc = self.describe(case)
        return [{"sig": "hang", "msg": "parse_string did not return within %ss on %r" % (self.soft_timeout, desc)}]

    def describe(self, case):
        fam = case[0]
        if fam in ("pump", "pump2"):
            return {"family": fam, "case": case[1]}
        try:
            return {"family": fam, "text": self.build(case)[0][:300]}
        except Exception:
            return {"family": fam, "case": case[1]}

    def finish(self, agg):
        errs = []
        if len(agg["keys"]) < 1000:
            errs.append("vacuous: only %d distinct tree shapes" % len(agg["keys"]))
        return {"families": self.space.family_sizes()}, errs


PROP = C01()
