"""C07 – cleaning is lossless for ordinary content.

Space: documents of grammar G restricted to the property's domain (every heading is followed by body text, no removal trigger,
tables far below the size heuristics), up to 2 blocks over the full library and 3 blocks over the core library (quick) /
3 blocks over the full library (thorough), in 2-4 spelling variants.
Oracle (differential, the same tree before and after TreeCleaner(tree).clean_all()): the sequence of visible wNN tokens is
identical; each token keeps its section path (heading tokens of the enclosing sections), its number of enclosing list items and
its enclosing reference; every token that was inside a table with >=2 rows and >=2 columns is still inside a table.
"""
import io
import contextlib

from mc.core.runner import InputProp, exc_signature
from mc.core.space import Concat, Product, Space
from mc.gen import docgrammar as G
from mc.gen import docextract as X
from mc.props.c01 import LangDB
from mc.props.c02 import CORE


def in_domain(names):
    """every heading is followed by a body block (empty sections are documented as removable)"""
    for i, n in enumerate(names):
        if n.startswith("h") and (i + 1 >= len(names) or names[i + 1].startswith("h")):
            return False
    return True


class DomainSpace(Space):
    def __init__(self, inner, name):
        self.name = name
        self.cases = [c for c in inner if in_domain(c[0])]

    def __len__(self):
        return len(self.cases)

    def __getitem__(self, i):
        return self.cases[i]


def observe(root):
    """token -> (section path, item depth, reference ordinal, in big table) ; plus the token order"""
    order = []
    info = {}
    refs = []

    def rec(node, secs, items, ref, bigtable, parent, idx):
        nm = type(node).__name__
        if nm == "Section":
            cap = node.children[0] if node.children else None
            toks = tuple(t for t, _ in X.extract(cap)) if cap is not None else ()
            secs = secs + (toks,)
        elif nm == "Item":
            items += 1
        elif nm == "Reference":
            ref = []  # identified by the first token inside it (empty uses of a named reference come and go)
        elif nm == "Table":
            rows = [r for r in node.children if type(r).__name__ == "Row"]
            if len(rows) >= 2 and max((len([c for c in r.children if type(c).__name__ == "Cell"]) for r in rows), default=0) >= 2:
                bigtable = True
        if nm == "Text":
            for t in X.TOKEN.findall(node.caption or ""):
                order.append(t)
                if isinstance(ref, list):
                    ref.append(t)
                info[t] = (secs, items, ref, bigtable)
            return
        if nm in X.LINK_CLASSES and not node.children:
            for t in X.TOKEN.findall((getattr(node, "target", "") or "").lower()):
                order.append(t)
                if isinstance(ref, list):
                    ref.append(t)
                info[t] = (secs, items, ref, bigtable)
        for i, c in enumerate(node.children):
            rec(c, secs, items, ref, bigtable, node, i)

    rec(root, (), 0, 0, False, None, 0)
    info = {t: (v[0], v[1], (v[2][0] if v[2] else 0) if isinstance(v[2], list) else v[2], v[3]) for t, v in info.items()}
    return order, info


def under_table(root):
    out = set()

    def rec(node, intable):
        nm = type(node).__name__
        if nm == "Table":
            intable = True
        if nm == "Text" and intable:
            out.update(X.TOKEN.findall(node.caption or ""))
        if nm in X.LINK_CLASSES and not node.children and intable:
            out.update(X.TOKEN.findall((getattr(node, "target", "") or "").lower()))
        for c in node.children:
            rec(c, intable)
    rec(root, False)
    return out


SEQ_BLOCKS = ["h2", "p", "p-italic", "p-link-caption", "p-ref", "p-ref-named", "ul-ref-named", "p-ref-2para", "ul", "ul-ol", "dl", "table-2x2",
              "table-header", "table-caption", "table-list", "table-nested", "pre", "table-sparse-last"]


# line-level constructs that the block library only has in richer forms
RAW_REPEATED = {"raw-indent": ": same words", "raw-indent2": ":: same deeper words", "raw-bullet": "* same item", "raw-numbered": "# same item",
                "raw-pre": " same preformatted line", "raw-bold-line": "'''same bold''' words", "raw-link-line": "[[Same|same link]] words",
                # entries that repeat an earlier entry of the SAME list / table
                "raw-dl-internal": "; Cat\n: animal\n; Dog\n: animal\n; Rose\n: plant", "raw-verse": ": first line\n: la la la\n: second line\n: la la la\n: third line\n: fourth line",
                "raw-ul-internal": "* same\n* other\n* same\n* last", "raw-ol-nested-internal": "# a\n## same\n# b\n## same\n# c",
                "raw-table-internal": "{|\n| same || other\n|-\n| same || last\n|-\n| x || y\n|}",
                "raw-div": "<div>same div words</div>", "raw-blockquote": "<blockquote>same quoted words</blockquote>", "raw-center": "<center>same centered</center>"}


class C07(InputProp):
    id = "C07"
    rule = ("every in-domain document of grammar G up to the block bound x spelling variants; differential oracle on the same tree before/after "
            "clean_all(): token sequence, section path, item depth, reference, table membership; plus cleaner histories: every ordered pair of "
            "one-block articles cleaned by ONE cleaner (sequential reuse as in the PDF writer, and as a Book), compared with fresh cleaners; "
            "distinct = distinct cleaned token/position lists")
    assumptions = ("documents far below the cleaner's size heuristics and free of its documented removal triggers",
                   "a heading token belongs to its own section (the section caption is part of the path)")
    chunk = 300
    soft_timeout = 30.0

    def prepare(self, tier):
        from mwlib.parser.refine import uparser
        from mwlib.parser import advtree, treecleaner
        from mwlib.utils.uniq import Uniquifier
        Uniquifier.random_string = "0123456789abcdef"
        self.parse, self.advtree, self.treecleaner = uparser.parse_string, advtree, treecleaner
        self.db = LangDB("en", {})
        if tier == "quick":
            fams = [DomainSpace(G.DocSpace(2, variants=["plain", "html", "tight"]), "g2"), DomainSpace(G.DocSpace(3, names=CORE, variants=["plain"]), "g3core")]
        else:
            fams = [DomainSpace(G.DocSpace(2), "g2"), DomainSpace(G.DocSpace(3, variants=["plain", "tight"]), "g3")]
        fams.append(DomainSpace(G.HeadingSpace(3 if tier == "quick" else 4), "headings"))
        # histories of ONE cleaner: the PDF writer keeps a single TreeCleaner and cleans article after article with it, and a
        # Book is cleaned child by child in one call.  Every ordered pair of one-block articles x both ways of reuse.
        seqnames = [n for n in (G.LIBNAMES if tier != "quick" else SEQ_BLOCKS) if in_domain((n,))]
        fams.append(Product(seqnames, seqnames, ["reuse", "book"], name="cleaner-history"))
        # the same block TWICE with identical words (real articles repeat themselves; with unique words, code that compares
        # nodes by value instead of identity cannot be told from correct code), glued by single newlines or separated
        repnames = [n for n in G.LIBNAMES if in_domain((n, "p")) and "named" not in n and "shared" not in n]
        fams.append(Product(repnames + sorted(RAW_REPEATED), ["glued", "separated", "glued-3", "section-glued", "section-separated"], name="repeated"))
        self.space = Concat(*fams)

    def describe(self, case):
        if case[0] == "cleaner-history":
            return {"first_article": case[1][0], "second_article": case[1][1], "mode": case[1][2],
                    "wikitext": [G.render(((case[1][0],), "plain")), G.render(((case[1][1],), "plain"))]}
        if case[0] == "repeated":
            return {"block": case[1][0], "repeated": case[1][1]}
        fam, (names, variant) = case
        return {"blocks": names, "variant": variant, "wikitext": G.render((names, variant))}

    def run_history(self, c):
        """differential oracle: what a cleaner that has already cleaned article A makes of article B must be what a fresh
        cleaner makes of B (and of A), for the sequential reuse of the PDF writer and for a Book of both"""
        na, nb, mode = c
        ta, tb = G.render(G.build((na,)), "plain"), G.render(G.build((nb,)), "plain")
        from mwlib.parser import nodes

        def tree(title, text):
            t = self.parse(title=title, raw=text, wikidb=self.db, lang="en")
            self.advtree.build_advanced_tree(t)
            return t
        viol = []
        with contextlib.redirect_stdout(io.StringIO()), contextlib.redirect_stderr(io.StringIO()):
            try:
                ref = {}
                for title, text in (("One", ta), ("Two", tb)):
                    t = tree(title, text)
                    self.treecleaner.TreeCleaner(t, save_reports=True).clean_all()
                    ref[title] = observe(t)
                a, b = tree("One", ta), tree("Two", tb)
                if mode == "reuse":
                    tc = self.treecleaner.TreeCleaner(a, save_reports=True)
                    tc.clean_all()
                    tc.tree = b
                    tc.clean_all()
                else:
                    book = nodes.Book()
                    book.children = [a, b]
                    self.advtree.build_advanced_tree(book)
                    tc = self.treecleaner.TreeCleaner(book, save_reports=True)
                    tc.clean_all()
                errs = [r for r in tc.get_reports() if "ERROR" in str(r)]
                got = {"One": observe(a), "Two": observe(b)}
            except Exception as e:
                return {"key": "exc", "viol": [{"sig": "raises:" + exc_signature(e), "msg": "%s of %r, %r raised %r" % (mode, ta, tb, e)}]}
        if errs:
            viol.append({"sig": "history-error|%s" % mode, "msg": "cleaner reports %r (%s of %r then %r)" % (errs[:1], mode, ta, tb)})
        for title, text, nm in (("One", ta, na), ("Two", tb, nb)):
            if got[title] != ref[title]:
                o1, o2 = ref[title][0], got[title][0]
                lost = [t for t in o1 if t not in o2]
                what = "lost %r" % lost if lost else "tokens/positions %r instead of %r" % (got[title], ref[title])
                viol.append({"sig": "history|%s|%s" % (mode, nm), "msg": "article %s (%r) cleaned %s: %s; a fresh cleaner keeps them (other article: %r)" % (
                    title, text, "by a cleaner that cleaned another article before" if mode == "reuse" else "as part of a book", what,
                    tb if title == "One" else ta)})
        return {"key": ("hist", mode, tuple(got["Two"][0]), tuple(sorted(got["Two"][1].items()))), "steps": 4, "viol": viol}

    def run_repeated(self, c):
        name, how = c
        blk = RAW_REPEATED[name] if name in RAW_REPEATED else "\n".join(G.ser_block(G.LIBMAP[name](G.Tok()), "plain"))
        fill = ["alpha one", "beta two", "gamma three", "delta four"]
        n = 3 if how == "glued-3" else 2
        parts = []
        for i in range(n):
            parts += [fill[i], blk]
        parts.append(fill[n])
        text = ("\n\n" if how.endswith("separated") else "\n").join(parts) + "\n"
        if how.startswith("section"):
            text = "== Heading ==\n\n" + text

        def words(tree):
            return [w for nd in tree.allchildren() if type(nd).__name__ == "Text" for w in (nd.caption or "").split()]
        with contextlib.redirect_stdout(io.StringIO()), contextlib.redirect_stderr(io.StringIO()):
            try:
                tree = self.parse(title="Test", raw=text, wikidb=self.db, lang="en")
                self.advtree.build_advanced_tree(tree)
                w1 = words(tree)
                self.treecleaner.TreeCleaner(tree, save_reports=True).clean_all()
                w2 = words(tree)
            except Exception as e:
                return {"key": "exc", "viol": [{"sig": "raises:" + exc_signature(e), "msg": "%r raised %r" % (text, e)}]}
        viol = []
        if w1 != w2:
            kind = "lost" if len(w2) < len(w1) else "duplicated" if len(w2) > len(w1) else "reordered"
            viol.append({"sig": "%s|repeated:%s" % (kind, name), "msg": "a document holding the block %s %d times with identical words: %d words before cleaning, %d after (%r ... -> %r ...); %r" % (
                name, n, len(w1), len(w2), w1[:12], w2[:12], text)})
        return {"key": ("repeated", name, how, len(w2)), "steps": len(w1), "viol": viol}

    def run_case(self, case):
        if case[0] == "cleaner-history":
            return self.run_history(case[1])
        if case[0] == "repeated":
            return self.run_repeated(case[1])
        fam, (names, variant) = case
        doc = G.build(names)
        text = G.render(doc, variant)
        with contextlib.redirect_stdout(io.StringIO()), contextlib.redirect_stderr(io.StringIO()):
            try:
                tree = self.parse(title="Test", raw=text, wikidb=self.db, lang="en")
                self.advtree.build_advanced_tree(tree)
                o1, i1 = observe(tree)
                big1 = {t for t, v in i1.items() if v[3]}
                self.treecleaner.TreeCleaner(tree, save_reports=True).clean_all()
                o2, i2 = observe(tree)
                t2 = under_table(tree)
                extra = "".join(X.TOKEN.sub("", "".join(n.caption or "" for n in tree.allchildren() if type(n).__name__ == "Text")).split())
            except Exception as e:
                return {"key": "exc", "viol": [{"sig": "raises:" + exc_signature(e), "msg": "%r raised %r" % (text, e)}]}
        viol = []

        def where(tok):
            for i, b in enumerate(doc):
                if tok in G.tokens([b]):
                    return names[i]
            return "?"

        if extra != G.extras(doc):
            viol.append({"sig": "%s|%s" % ("invented-text" if len(extra) >= len(G.extras(doc)) else "lost-text", "+".join(sorted(set(names)))[:60]),
                         "msg": "besides the tokens the cleaned tree shows %r, the document has %r; %r" % (extra[:40], G.extras(doc)[:40], text)})
        if o1 != o2:
            lost = [t for t in o1 if t not in o2]
            dup = sorted(set(t for t in o2 if o2.count(t) > 1))
            new = [t for t in o2 if t not in o1]
            if lost:
                viol.append({"sig": "lost|%s" % where(lost[0]), "msg": "cleaning dropped %r; %r" % (lost, text)})
            if dup:
                viol.append({"sig": "duplicated|%s" % where(dup[0]), "msg": "cleaning duplicated %r; %r" % (dup, text)})
            if new:
                viol.append({"sig": "invented|%s" % where(new[0]), "msg": "cleaning added %r; %r" % (new, text)})
            if not (lost or dup or new):
                first = next(a for a, b in zip(o1, o2) if a != b)  # the first word that is not where it was
                viol.append({"sig": "reordered|%s" % where(first), "msg": "reading order before %r, after %r; %r" % (o1, o2, text)})
        else:
            for t in o1:
                a, b = i1[t], i2[t]
                if a[0] != b[0]:
                    viol.append({"sig": "section|%s" % where(t), "msg": "%s moved from section path %r to %r; %r" % (t, a[0], b[0], text)})
                elif a[1] != b[1]:
                    viol.append({"sig": "item-depth|%s" % where(t), "msg": "%s was inside %d list item(s), now %d; %r" % (t, a[1], b[1], text)})
                elif a[2] != b[2]:
                    viol.append({"sig": "reference|%s" % where(t), "msg": "%s changed its enclosing reference (%r -> %r); %r" % (t, a[2], b[2], text)})
                elif t in big1 and t not in t2:
                    viol.append({"sig": "table-dissolved|%s" % where(t), "msg": "%s was in a table with >=2 rows and columns and is in no table any more; %r" % (t, text)})
                if len(viol) >= 3:
                    break
        return {"key": tuple((t, i2.get(t, ("?",))[1:3]) for t in o2), "steps": len(o1), "viol": viol}

    def finish(self, agg):
        errs = []
        if len(agg["keys"]) < 200:
            errs.append("vacuous: %d distinct outcomes" % len(agg["keys"]))
        return {"families": self.space.family_sizes()}, errs


PROP = C07()
