"""C14 – what is written into a collection archive is what is read back.

History = a sequence of FsOutput writes (write_pages in one batch / one call per revision, write_expanded_page with or
without revid, every order), redirects.json, image files stored under their canonical title; then close, zip_dir,
wiki.make_wiki(zip) and every lookup spelling.  All domains are small and fully enumerated; nothing is sampled.
"""
import hashlib
import itertools
import json
import os
import shutil
import tempfile

from mc.core.runner import InputProp
from mc.core.space import Items, Concat, Space

TITLES = [("A", 0), ("A b", 0), ("Ä", 0), ("ßeta", 0), ("中", 0), ("A.b", 0), ("A-b", 0), ("A~b", 0), ("~1~", 0),
          ("Template:T", 10), ("File:I.png", 6), ("Category:C", 14)]
TEXTS = ["x", "", "a\nb", "a\r\nb", "--page--", "x\n --page-- {}", "\x0c --page-- {}", "x\n", "x\n\n", "\nx", " x ", "ü \U0001F600",
         "\n\x0c--page--", "{\"title\": \"A\"}", "x\r", "\r", "a\rb\r", "x\r\n", "\x0c", "x ", "\t",
         "#REDIRECT [[Nowhere]] is how a redirect is written", "#redirect [[Nowhere]]",
         # a page that QUOTES the redirect syntax somewhere else than at its start, pointing at a page of the same archive
         "To redirect write\n#REDIRECT [[A b]]\non the first line", "1. #redirect [[A]] 2. save"]
METHODS = ["pages-batch", "pages-single", "expanded-revid", "expanded-norevid"]


def page_histories(tier):
    """cases: (lang, [(title, ns, revid, text), ...] in write order, method)"""
    titles = TITLES if tier != "quick" else TITLES[:4] + TITLES[7:10]
    out = []
    # 1. one title, every text, every method
    for (t, ns) in titles:
        for txt in TEXTS:
            for m in METHODS:
                out.append(("en", ((t, ns, 11, txt),), m))
    # 2. two revisions of one title + a second title, all write orders, every method that carries revids
    for (t, ns) in titles:
        for (t2, ns2) in titles:
            if t2 == t:
                continue
            # revision ids of equal and of different digit counts (numeric vs. lexicographic order must not matter)
            for (r_old, r_new, r_other) in ((11, 13, 12), (9, 10, 100), (3, 20, 7), (99999, 100000, 5)):
                recs = ((t, ns, r_old, "old " + t), (t, ns, r_new, "new " + t), (t2, ns2, r_other, "other"))
                for perm in itertools.permutations(recs):
                    for m in ("pages-batch", "pages-single", "expanded-revid"):
                        out.append(("en", perm, m))
        if tier == "quick":
            break
    # 3. texts next to each other (record boundaries): every ordered pair of texts on two titles
    for a in TEXTS:
        for b in TEXTS:
            for m in ("pages-single", "expanded-norevid"):
                out.append(("en", (("A", 0, 11, a), ("A b", 0, 12, b)), m))
    # 4. another site language (localized namespace names)
    for txt in TEXTS[:4]:
        for m in METHODS:
            out.append(("de", (("Vorlage:T", 10, 11, txt), ("Ä", 0, 12, "y")), m))
    return out


REDIRECT_CASES = [
    ("single", {"A": "B"}, ["B"]),
    ("to-spaced", {"A": "B c"}, ["B c"]),
    ("template", {"Template:T": "Template:U"}, ["Template:U"]),
    ("both-stored", {"A": "B"}, ["A", "B"]),
    ("chain-flat", {"A": "B", "B": "C"}, ["C"]),
]

TITLE_ALPHABET = ["a", "B", "1", " ", "-", ".", "~", "ä", "Z"]
FIRSTS = ["B", "1", "-", ".", "~", "Z", "Ä"]
IMAGE_CASES = []
for lang, canon_ns, spell_ns in (("en", "File", ["File", "file", "FILE", "Image", "image"]),
                                 ("de", "Datei", ["Datei", "datei", "Bild", "File", "Image", "file"])):
    for partial in ("Abc.png", "Abc d.png", "Äb.png", "A-b~c.png", "1.png", "Abc d.e.svg",
                    "A+b.png", "H+ ion.png"):  # (wave 11: a plus sign is a legal title character, not an encoded blank)
        IMAGE_CASES.append((lang, canon_ns, tuple(spell_ns), partial))


class C14(InputProp):
    id = "C14"
    rule = ("every write history of the stated families (texts x titles x methods x write orders; redirects; image titles x lookup "
            "spellings) through the real FsOutput -> zip_dir -> wiki.make_wiki(zip) path, plus all canonical titles of <=4 symbols "
            "for fs_escape injectivity; distinct = distinct (stored record set, lookup result) outcomes")
    assumptions = ("texts containing the record separator and titles with %XX are outside the format (excluded by the statement)",
                   "canonical titles contain no underscores (MediaWiki stores spaces)")
    chunk = 40
    soft_timeout = 60.0

    def prepare(self, tier):
        from mwlib.network import fetch, siteinfo
        from mwlib.core import wiki
        from mwlib.apps import buildzip
        from mwlib.utils import unorganized
        self.fetch, self.siteinfo, self.wiki, self.buildzip, self.unorganized = fetch, siteinfo, wiki, buildzip, unorganized
        pairs = [(a, b, order) for (a, b) in (("Flag.svg", "Flag.png"), ("Flag.gif", "Flag.png"), ("Flag.tif", "Flag.tiff"), ("Flag.jpg", "Flag.png"),
                                               ("Flag a.png", "Flag_a.png.png"), ("Flag.PNG", "Flag.png"),
                                               # titles that differ by a compatibility-equivalent character only (distinct for MediaWiki)
                                               ("Scale 10 \u00b5m.png", "Scale 10 \u03bcm.png"), ("O\ufb03ce.png", "Office.png"), ("X\u00b2.png", "X2.png"),
                                               ("\uff21.png", "A.png"), ("Caf\u00e9.png", "Cafe\u0301.png"), ("\u2160.png", "I.png"))
                 for order in ("ab", "ba")]
        fams = [Items(page_histories(tier), name="pages"), Items(REDIRECT_CASES, name="redirects"),
                Items(IMAGE_CASES, name="images"), Items([("all",)], name="fs_escape"), Items(pairs, name="image-pairs"),
                Items([(f, 3 if tier == "quick" else 4) for f in FIRSTS], name="images-all")]
        self.space = Concat(*fams)

    # ------------------------------------------------------------------ helpers
    def build(self, lang, writer):
        d = tempfile.mkdtemp(prefix="c14-")
        fs = self.fetch.FsOutput(os.path.join(d, "nuwiki"))
        fs.write_siteinfo(self.siteinfo.get_siteinfo(lang))
        fs.nfo = {"format": "nuwiki", "base_url": "http://wiki.example/w/", "script_extension": ".php"}
        redirects = writer(fs) or {}
        fs.write_redirects(redirects)
        fs.write_licenses([])
        fs.write_authors()
        fs.write_html()
        fs.imageinfo.close()
        fs.close()
        zp = self.buildzip.zip_dir(os.path.join(d, "nuwiki"), os.path.join(d, "c.zip"))
        env = self.wiki.make_wiki(zp)
        return d, env

    def cleanup(self, d, env):
        try:
            env.wiki.clear()
        except Exception:
            pass
        shutil.rmtree(d, ignore_errors=True)

    def run_case(self, case):
        fam, c = case
        import io, contextlib
        from mc.core.runner import exc_signature
        with contextlib.redirect_stdout(io.StringIO()):
            try:
                if fam == "pages":
                    return self.run_pages(c)
                if fam == "redirects":
                    return self.run_redirects(c)
                if fam == "images":
                    return self.run_images(c)
                if fam == "image-pairs":
                    return self.run_image_pair(c)
                if fam == "images-all":
                    return self.run_images_all(c)
                return self.run_fs_escape()
            except Exception as e:
                if "/verif/" in (e.__traceback__.tb_next.tb_frame.f_code.co_filename if e.__traceback__.tb_next else "") and \
                        exc_signature(e).endswith("@?"):
                    raise
                feat = ""
                if fam == "pages" and any(r[3].startswith("\x0c --page-- ") for r in c[1]):
                    feat = ":text-starts-with-FF-page-marker"
                return {"key": "raises", "viol": [{"sig": "archive-unusable:" + exc_signature(e) + feat,
                                                   "msg": "writing/zipping/re-opening the archive raised %r" % (e,)}]}

    def run_pages(self, c):
        lang, recs, method = c
        viol = []

        def writer(fs):
            if method == "pages-batch":
                pages = {}
                for i, (t, ns, revid, txt) in enumerate(recs):
                    p = pages.setdefault(t, {"title": t, "ns": ns, "revisions": []})
                    p["revisions"].append({"revid": revid, "*": txt})
                fs.write_pages({"pages": {str(i): p for i, p in enumerate(pages.values())}})
            elif method == "pages-single":
                for (t, ns, revid, txt) in recs:
                    fs.write_pages({"pages": {"1": {"title": t, "ns": ns, "revisions": [{"revid": revid, "*": txt}]}}})
            elif method == "expanded-revid":
                for (t, ns, revid, txt) in recs:
                    fs.write_expanded_page(t, ns, txt, revid=revid)
            else:
                for (t, ns, revid, txt) in recs:
                    fs.write_expanded_page(t, ns, txt)

        d, env = self.build(lang, writer)
        try:
            w = env.wiki
            newest = {}
            if method == "expanded-norevid":
                for (t, ns, revid, txt) in recs:
                    newest[t] = (ns, txt)  # no revision ids: the last write of a title is the stored one
            else:
                for (t, ns, revid, txt) in recs:
                    if t not in newest or revid > newest[t][2]:
                        newest[t] = (ns, txt, revid)
            got_key = []
            for (t, ns, revid, txt) in recs:
                if method != "expanded-norevid":
                    p = w.get_page(None, revid)
                    if p is None or p.rawtext != txt:
                        viol.append({"sig": "by-revid:%s" % method, "msg": "get_page(None, %d) = %r, written %r" % (revid, getattr(p, "rawtext", None), txt)})
            for t, v in newest.items():
                ns, txt = v[0], v[1]
                p = w.get_page(t)
                if p is None or p.rawtext != txt:
                    viol.append({"sig": "by-title:%s" % method, "msg": "get_page(%r) = %r, newest written %r" % (t, getattr(p, "rawtext", None), txt)})
                got_key.append((t, getattr(p, "rawtext", None)))
                # equivalent spellings
                partial = t.split(":", 1)[1] if ns != 0 else t
                for sp, dns in self.spellings(t, ns, partial, lang):
                    p = w.normalize_and_get_page(sp, dns)
                    if p is None or p.rawtext != txt:
                        viol.append({"sig": "by-spelling:%s" % method, "msg": "normalize_and_get_page(%r, %d) = %r, written %r under %r" % (
                            sp, dns, getattr(p, "rawtext", None), txt, t)})
            return {"key": (method, tuple(got_key)), "steps": len(recs) * 4, "viol": viol}
        finally:
            self.cleanup(d, env)

    def spellings(self, t, ns, partial, lang):
        out = [(t, 0), (t.replace(" ", "_"), 0), (" " + t + " ", 0), (t.replace(" ", "  "), 0), (":" + t, 10),
               # runs of separators: any mix of blanks and underscores is ONE separator
               (t.replace(" ", "__"), 0), (t.replace(" ", "_ "), 0), (t.replace(" ", " _"), 0), ("_" + t.replace(" ", "_ _") + "_", 0)]
        if partial[:1].upper() != partial[:1].lower():
            lowered = partial[:1].lower() + partial[1:]
            out.append(((t.split(":", 1)[0] + ":" + lowered) if ns != 0 else lowered, 0))
        if ns != 0:
            out.append((partial, ns))
            nsname = t.split(":", 1)[0]
            out.append((nsname.upper() + ":" + partial, 0))
            out.append((nsname.lower() + " : " + partial, 0))
        return out

    def run_redirects(self, c):
        name, redirects, stored = c
        viol = []

        def writer(fs):
            for i, t in enumerate(stored):
                ns = 10 if t.startswith("Template:") else 0
                fs.write_pages({"pages": {"1": {"title": t, "ns": ns, "revisions": [{"revid": 20 + i, "*": "text of " + t}]}}})
            return redirects

        d, env = self.build("en", writer)
        try:
            w = env.wiki
            key = []
            for src in redirects:
                tgt = src
                seen = set()
                while tgt in redirects and tgt not in seen:
                    seen.add(tgt)
                    tgt = redirects[tgt]
                want = "text of " + tgt if tgt in stored else None
                if want is None:
                    continue
                for label, p in (("get_page", w.get_page(src)),
                                 ("normalize", w.normalize_and_get_page(src[:1].lower() + src[1:].replace(" ", "_"), 0))):
                    key.append((src, getattr(p, "rawtext", None)))
                    if p is None or p.rawtext != want:
                        viol.append({"sig": "redirect:%s:%s" % (name, label),
                                     "msg": "%s(%r) = %r with redirects %r; target page %r holds %r" % (
                                         label, src, getattr(p, "rawtext", None), redirects, tgt, want)})
            return {"key": (name, tuple(key)), "steps": len(key), "viol": viol}
        finally:
            self.cleanup(d, env)

    def run_images(self, c):
        lang, canon_ns, spell_ns, partial = c
        canon = "%s:%s" % (canon_ns, partial)
        payload = ("bytes of " + canon).encode("utf-8")
        viol = []

        def writer(fs):
            with open(fs.get_imagepath(canon), "wb") as f:
                f.write(payload)
            fs.write_pages({"pages": {"1": {"title": canon, "ns": 6, "revisions": [{"revid": 5, "*": "description"}]}}})

        d, env = self.build(lang, writer)
        try:
            w = env.wiki
            key = []
            sp = []
            for nsn in spell_ns:
                sp.append(nsn + ":" + partial)
                sp.append(nsn + ":" + partial.replace(" ", "_"))
                sp.append(nsn + ":" + partial[:1].lower() + partial[1:])
                sp.append(nsn + ": " + partial + " ")
                sp.append(nsn + ":" + partial.replace(" ", "__"))
                sp.append(nsn + ":" + partial.replace(" ", "_ "))
            sp.append(partial)  # default namespace File
            import urllib.parse
            sp.append(canon_ns + ":" + urllib.parse.quote(partial))
            for s in sp:
                try:
                    path = w.get_disk_path(s)
                except Exception as e:
                    viol.append({"sig": "image-lookup-raises:%s" % type(e).__name__, "msg": "get_disk_path(%r) raised %r (stored %r, %s)" % (s, e, canon, lang)})
                    continue
                data = None
                if path and os.path.exists(path):
                    with open(path, "rb") as f:
                        data = f.read()
                key.append((s, data is not None))
                if data != payload:
                    viol.append({"sig": "image-spelling", "msg": "[%s] get_disk_path(%r) -> %r does not give the file stored under %r" % (lang, s, path, canon)})
            return {"key": (lang, partial, tuple(key)), "steps": len(sp), "viol": viol}
        finally:
            self.cleanup(d, env)

    def run_image_pair(self, c):
        """two distinct image titles (same stem, different extension) stored in one archive and looked up in both orders"""
        a, b, order = c
        titles = ["File:" + a, "File:" + b]
        payload = {t: ("bytes of " + t).encode("utf-8") for t in titles}
        viol = []

        def writer(fs):
            for t in titles:
                with open(fs.get_imagepath(t), "wb") as f:
                    f.write(payload[t])

        d, env = self.build("en", writer)
        try:
            w = env.wiki
            key = []
            for t in (titles if order == "ab" else titles[::-1]) * 2:
                path = w.get_disk_path(t)
                data = open(path, "rb").read() if path and os.path.exists(path) else None
                key.append((t, data == payload[t]))
                if data != payload[t]:
                    viol.append({"sig": "image-pair:%s" % ("/".join(sorted(os.path.splitext(x)[1].lower() for x in (a, b)))),
                                 "msg": "get_disk_path(%r) gives %r, stored %r (both %r are in the archive, lookup order %s)" % (t, data, payload[t], titles, order)})
            return {"key": ("pair", a, b, tuple(key)), "steps": 4, "viol": viol[:1]}
        finally:
            self.cleanup(d, env)

    def run_images_all(self, c):
        """EVERY canonical image title of <= n symbols over the statement's alphabet that starts with `first`, all stored in one
        archive with distinct contents, zipped, re-opened and read back: kept apart and readable through the real archive path"""
        first, maxlen = c
        titles = []
        for ln in range(0, maxlen):
            for tup in itertools.product(TITLE_ALPHABET, repeat=ln):
                t = first + "".join(tup)
                if t != t.strip() or "  " in t:
                    continue
                titles.append("File:" + t + ".png")
        payload = {t: ("bytes of " + t).encode("utf-8") for t in titles}
        viol = []

        def writer(fs):
            for t in titles:
                with open(fs.get_imagepath(t), "wb") as f:
                    f.write(payload[t])

        d, env = self.build("en", writer)
        try:
            w = env.wiki
            bad = 0
            for t in titles:
                path = w.get_disk_path(t)
                data = None
                if path and os.path.exists(path):
                    with open(path, "rb") as f:
                        data = f.read()
                if data != payload[t]:
                    bad += 1
                    if not viol:
                        viol.append({"sig": "image-kept-apart", "msg": "get_disk_path(%r) gives %r, stored %r (archive of %d image titles)" % (
                            t, data, payload[t], len(titles))})
            return {"key": ("images-all", first, bad), "steps": len(titles), "viol": viol, "counters": {"image_titles_through_archive": len(titles)}}
        finally:
            self.cleanup(d, env)

    def run_fs_escape(self):
        alphabet = ["a", "B", "1", " ", "-", ".", "~", "ä", "Z"]
        seen = {}
        viol = []
        n = 0
        for ln in range(1, 5):
            for tup in itertools.product(alphabet, repeat=ln):
                t = "".join(tup)
                if t != t.strip() or "  " in t:
                    continue  # not a canonical title
                if t[:1].upper() != t[:1]:
                    continue
                n += 1
                for full in ("File:" + t + ".png",):
                    e = self.unorganized.fs_escape(full)
                    if e in seen and seen[e] != full:
                        if not viol:
                            viol.append({"sig": "fs_escape-collision", "msg": "titles %r and %r are stored under the same file name %r" % (seen[e], full, e)})
                    seen[e] = full
        return {"key": ("fs_escape", len(seen)), "steps": n, "viol": viol, "counters": {"fs_escape_titles": n}}

    def describe(self, case):
        return case

    def finish(self, agg):
        errs = []
        if len(agg["keys"]) < 30:
            errs.append("vacuous: %d distinct outcomes" % len(agg["keys"]))
        return {"families": self.space.family_sizes()}, errs


PROP = C14()
