"""C05 – document trees stay well-formed and meet the writers' structural contract."""
from mc.props.clean_explore import CleanExplore


class C05(CleanExplore):
    id = "C05"
    which = "C05"
    rule = ("state = tree, transition = cleaning pass (TreeCleaner.cleaner_methods in order), from the tree of every enumerated input "
            "(cleaner-trigger alphabet^<=2, SIGMA^1, SIGMA_CORE^2, contexts x SIGMA_CORE, document grammar, br/list/deep-nesting wrappers, cleaner histories, books of <=3 articles in 3 layouts cleaned in one go); own validator after "
            "build_advanced_tree and after EACH pass; containment contract after the full sequence; distinct = distinct final trees")
    assumptions = ("inputs from the stated alphabets (mc/gen/wikitext.py, mc/gen/cleantriggers.py)",)


PROP = C05()
