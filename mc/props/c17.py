"""C17 – eligibility, priority/FIFO order, finality, wait release, idempotent add, counters."""
from mc.props import qs_explore as X
from mc.props.c16 import RULE, ASSUME, EXT_OPS, make_cfg


class C17:
    id = "C17"
    families = ("C17",)

    def main(self, tier, seed, gate=True):
        cfg, cap = make_cfg(tier, EXT_OPS)
        return X.search(self.id, cfg, tier, seed, self.families, time_cap=cap,
                        rule=RULE + "; every RPC return value and every quiescent state is compared with a sequential reference model (mc/ref/queue_ref.py); getstats/qinfo observed in every state",
                        assumptions=ASSUME, gate=gate)

    def replay(self, record):
        return X.replay_history(record, self.families, make_cfg("quick", EXT_OPS)[0])


PROP = C17()
