"""C17 – eligibility, priority/FIFO order, finality, wait release, idempotent add, counters."""
from mc.props import qs_explore as X
from mc.props.c16 import RULE, ASSUME, EXT_OPS, make_cfg, narrow_cfg


class C17:
    id = "C17"
    families = ("C17",)

    def main(self, tier, seed, gate=True):
        cfg, cap = make_cfg(tier, EXT_OPS)
        narrow = narrow_cfg(tier, {"add", "readd", "pull", "kill", "eof", "finish", "wait2", "tick"}, bound=10 if tier == "quick" else 12)
        ops = {"add", "readd", "pull", "kill", "eof", "finish", "wait", "tick"}
        falsy = narrow_cfg(tier, ops, bound=8 if tier == "quick" else 10, idnames=("", "j2"))
        zero = narrow_cfg(tier, ops, bound=8 if tier == "quick" else 10, idnames=(0, 7))
        # client-chosen ids that are exactly the next numbers the server would hand out (3 and 4 after two adds): the
        # server-numbered job added then has to skip both, and must still be served in the order it came
        collide = narrow_cfg(tier, {"add", "addanon", "pull", "finish"}, workers=("w1",), maxjobs=4, bound=11 if tier == "quick" else 13,
                             idnames=(3, 4, "x", "y"))
        return X.search_phases(self.id, [("wide", cfg, cap), ("narrow-deep", narrow, 60 if tier == "quick" else 600),
                                         ("empty-string-id", falsy, 30 if tier == "quick" else 300),
                                         ("integer-zero-id", zero, 30 if tier == "quick" else 300),
                                         ("server-numbers-taken", collide, 60 if tier == "quick" else 300)], tier, seed, self.families,
                               rule=RULE + "; every RPC return value and every quiescent state is compared with a sequential reference model (mc/ref/queue_ref.py); getstats/qinfo observed in every state; second phase: narrow configuration (1 channel, 2 workers, 2 jobs, two-id waits) to a deeper bound; third/fourth phase: the narrow configuration with client-chosen ids that are falsy in Python ('' and 0)",
                               assumptions=ASSUME, gate=gate)

    def replay(self, record):
        return X.replay_history(record, self.families, make_cfg("quick", EXT_OPS)[0])


PROP = C17()
