"""A closed world around the real queue server: real qs.jobs.workq, real QPlugin/RequestHandler, real
rpcserver.Server.handle_client on in-memory sockets, all under the controlled gevent hub.

Events the driver can inject (each is what one I/O readiness / timer event does in the real server):
    send(conn, request)   a request line arrives on a connection
    eof(conn)             the peer closed the connection
    tick                  the handletimeouts loop fires (clock first advanced past the earliest deadline)
    watchdog              the dropdead loop fires
    loop                  the event loop runs all pending callbacks to quiescence (FIFO, gevent's order)
    restart               Main.savedb() + fresh Main.loaddb() (real pickle path); all connections are gone
"""
import json
import os
import pickle
import shutil
import tempfile

import gevent
import gevent.queue
from gevent import GreenletExit

from mc.core import chub

import qs.jobs
import qs.qserve
import qs.rpcserver


class FakeTimeModule:
    def __init__(self, t=1000.0):
        self.t = t

    def time(self):
        return self.t


class Chooser:
    """Stands in for the `random` module inside qs.jobs: choices are dictated by the explorer."""

    def __init__(self):
        self.script = []
        self.taken = []  # (index, n) for every choice made

    def choice(self, seq):
        i = self.script.pop(0) if self.script else 0
        if i >= len(seq):
            raise InvalidChoice(i, len(seq))
        self.taken.append((i, len(seq)))
        return seq[i]


class InvalidChoice(Exception):
    pass


class EventShim:
    """stands in for the `gevent.event` module inside qs.jobs: same classes, but remembers which server
    greenlet created each AsyncResult (= which connection a waiter belongs to); harness side only"""

    def __init__(self, world):
        import gevent.event
        self.world = world
        self.Event = gevent.event.Event
        self._AR = gevent.event.AsyncResult

    def AsyncResult(self):
        ev = self._AR()
        self.world.ev_owner.append((ev, gevent.getcurrent()))
        if len(self.world.ev_owner) > 64:
            del self.world.ev_owner[:32]
        return ev


class FakeFile:
    def __init__(self, sock):
        self.sock = sock
        self.closed = False

    def readline(self):
        return self.sock.inq.get()

    def write(self, s):
        if self.closed or self.sock.closed:
            raise ValueError("I/O operation on closed file")
        self.sock.world.on_response(self.sock.conn, s)

    def flush(self):
        if self.closed or self.sock.closed:
            raise ValueError("I/O operation on closed file")

    def close(self):
        self.closed = True


class FakeSock:
    def __init__(self, world, conn):
        self.world = world
        self.conn = conn
        self.inq = gevent.queue.Queue()
        self.closed = False

    def makefile(self, mode):
        return FakeFile(self)

    def close(self):
        self.closed = True


class Conn:
    def __init__(self, name):
        self.name = name
        self.sock = None
        self.greenlet = None
        self.handler = None
        self.responses = []
        self.sent = 0
        self.eof_sent = False
        self.shutdown_done = False


class World:
    def __init__(self, conn_names=("w1", "w2", "w3", "c"), datadir=None):
        self.hub = chub.fresh_hub()
        self.clock = FakeTimeModule()
        self.chooser = Chooser()
        qs.jobs.time = self.clock
        qs.jobs.random = self.chooser
        self.ev_owner = []
        qs.jobs.event = EventShim(self)
        self.datadir = datadir
        self.main = self._make_main()
        self.trace = []  # linearised atomic steps, consumed by the reference model
        self.conns = {}
        self.generation = 0
        self.conn_names = conn_names
        self._start_server()

    # ------------------------------------------------------------------ server
    def _make_main(self):
        # the server's own constructor (it loads the saved queue); nothing of Main is rebuilt by hand here
        return qs.qserve.Main(0, "", self.datadir, set())

    @property
    def wq(self):
        return self.main.db.workq

    def _start_server(self):
        world = self
        main = self.main

        # exactly the class Main.run builds, plus trace points around the dispatch (harness side only)
        class Handler(qs.rpcserver.RequestHandler, qs.qserve.QPlugin):
            def __init__(self, **kwargs):
                super(Handler, self).__init__(**kwargs)
                world._register_handler(self, kwargs)

            workq = main.db.workq
            db = main.db

            def __call__(self, req):
                conn = self._conn
                world.trace.append(("call", conn.name, req[0], req[1], world.clock.t))
                try:
                    r = qs.rpcserver.RequestHandler.__call__(self, req)
                except GreenletExit:
                    world.trace.append(("killed-in-call", conn.name, req[0]))
                    raise
                except Exception as e:
                    world.trace.append(("raise", conn.name, req[0], type(e).__name__, str(e)))
                    raise
                world.trace.append(("return", conn.name, req[0], world._snap_result(req[0], r)))
                return r

            def shutdown(self):
                conn = self._conn
                world.trace.append(("shutdown", conn.name, sorted(self.running_jobs, key=str)))
                n0 = len(world.chooser.taken)
                try:
                    return super(Handler, self).shutdown()
                finally:
                    conn.shutdown_done = True
                    world.trace.append(("shutdown-done", conn.name, world.chooser.taken[n0:]))

        self.Handler = Handler
        srv = qs.rpcserver.Server.__new__(qs.rpcserver.Server)
        srv.get_request_handler = Handler
        srv.is_allowed = lambda ip: True
        srv.client_count = 0
        srv.log = lambda msg: None
        self.server = srv
        self.conns = {}
        for i, name in enumerate(self.conn_names):
            c = Conn(name)
            c.sock = FakeSock(self, c)
            self.conns[name] = c
            self._pending_conn = c
            c.greenlet = self.hub.start(srv.handle_client, c.sock, ("10.0.0.%d" % i, 1000 + i))
        self.hub.drain()

    def _register_handler(self, handler, kwargs):
        c = self._pending_conn
        handler._conn = c
        c.handler = handler

    def _snap_result(self, name, r):
        if name == "qpull" and isinstance(r, dict):
            return {"jobid": r.get("jobid"), "channel": r.get("channel"), "done": bool(r.get("done")),
                    "error": r.get("error"), "serial": r.get("serial"), "priority": r.get("priority")}
        if name in ("qwait",) and isinstance(r, list):
            return [{"jobid": x.get("jobid"), "done": x.get("done"), "error": x.get("error"), "result": x.get("result")}
                    for x in r]
        return r

    def on_response(self, conn, s):
        conn.responses.append(json.loads(s))
        self.trace.append(("response", conn.name))

    # ------------------------------------------------------------------ events
    def send(self, name, method, **kwargs):
        c = self.conns[name]
        c.sent += 1
        c.sock.inq.put(json.dumps([method, kwargs]) + "\n")

    def eof(self, name):
        c = self.conns[name]
        c.eof_sent = True
        c.sock.inq.put("")

    def tick(self, advance_to=None):
        """the handletimeouts loop fires (as one event-loop callback)"""
        if advance_to is not None:
            self.clock.t = advance_to
        self.hub.loop.run_callback(self._tick)

    def _tick(self):
        self.trace.append(("tick", self.clock.t))
        self.main.handletimeouts()

    def watchdog(self, advance=0.0):
        self.clock.t += advance
        self.hub.loop.run_callback(self._watchdog)

    def _watchdog(self):
        self.trace.append(("watchdog", self.clock.t))
        self.main.watchdog()

    def loop(self):
        return self.hub.drain()

    def restart(self):
        """Stop the server and start it again from its saved state (the real pickle path)."""
        d = tempfile.mkdtemp(prefix="qsrestart-")
        try:
            self.main.data_dir = d
            self.main.qpath = os.path.join(d, "workq.pickle")
            self.main.savedb()
            saved, self.trace = self.trace, []  # the teardown of the stopped server is not part of the history
            self.hub.shutdown([c.greenlet for c in self.conns.values() if c.greenlet is not None])
            self.trace = saved
            self.hub = chub.fresh_hub()
            self.main = qs.qserve.Main(0, "", d, set())
        finally:
            shutil.rmtree(d, ignore_errors=True)
        self.generation += 1
        self.trace.append(("restart",))
        self._start_server()

    def close(self):
        """free the world: kill every server greenlet and end the hub (nothing is observed afterwards)"""
        self.trace = []
        self.hub.shutdown([c.greenlet for c in self.conns.values() if c.greenlet is not None])
        for c in self.conns.values():
            c.greenlet = None
            c.handler = None
            c.sock = None
        self.conns = {}

    def owner_of(self, ev):
        for e, g in reversed(self.ev_owner):
            if e is ev:
                for name, c in self.conns.items():
                    if c.greenlet is g:
                        return name
                return "?"
        return "?"

    # ------------------------------------------------------------------ observation
    def conn_status(self, name):
        c = self.conns[name]
        g = c.greenlet
        if g.dead:
            return "dead"
        return "alive"

    def earliest_deadline(self):
        # (from the jobs themselves, not from the server's own deadline heap)
        ds = [j.timeout for j in self.wq.id2job.values() if not j.done and j.timeout is not None]
        return min(ds) if ds else None
